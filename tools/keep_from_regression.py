#!/usr/bin/env python3
"""keep_from_regression.py <round> <seedroot> <verify-log> <regression-log>...
Copy the confirmed changes of one round (sub-agent output under <seedroot>/<ID>/out/changeN) to
/verif/seeded/<ID>-<round>-<N>/ with meta.json. The check result is taken from the regression logs
(one line per change: "seeded:<tag> <prop> exit=<rc> <signatures>"), i.e. from a run of the final checks
against a frozen copy - the change is not run again here."""
import sys, os, re, json, shutil, glob
rnd, root, vlog, rlogs = sys.argv[1], sys.argv[2], sys.argv[3], sys.argv[4:]
NOTES = json.load(open('/verif/tools/seeded_notes.json')) if os.path.exists('/verif/tools/seeded_notes.json') else {}
ver = {}
for l in open(vlog):
    m = re.match(r'^(C\d\d)/(\d) (.*)$', l.strip())
    if m: ver[(m.group(1), m.group(2))] = m.group(3)
reg = {}
for f in rlogs:
    for l in open(f):
        m = re.match(r'^seeded:(\S+) (C\d\d) exit=(\d) ?(.*)$', l.strip())
        if m: reg[m.group(1)] = (m.group(2), int(m.group(3)), m.group(4))
n = 0
for ID in ['C%02d' % i for i in range(6, 21)]:
    for N in ('1', '2'):
        src = f'{root}/{ID}/out/change{N}'
        if not os.path.exists(f'{src}/patch.diff'): continue
        tag = f'{ID}-{rnd}-{N}'
        if (ID, N) not in ver: print('NO VERIFICATION LINE', tag); continue
        if tag not in reg: print('NO REGRESSION LINE', tag); continue
        line = ver[(ID, N)]
        m = re.search(r'unchanged\+demo: passed=(\d+) failed=(\d+) \| change\+demo: passed=(\d+) failed=(\d+) failing=\[(.*?)\]', line)
        ap, af, bp, bf, failing = int(m.group(1)), int(m.group(2)), int(m.group(3)), int(m.group(4)), m.group(5)
        ok = af == 0 and bf >= 1 and bp >= 2300
        dst = f'/verif/seeded/{tag}'
        os.makedirs(dst, exist_ok=True)
        for f in ['patch.diff', 'demo.diff', 'README.md']:
            shutil.copy(f'{src}/{f}', f'{dst}/{f}')
        for f in glob.glob(f'{src}/patch.orig-*.diff'):
            shutil.copy(f, dst)
        prop, rc, sigs = reg[tag]
        meta = {
            "id": tag, "property": ID, "origin": "independent sub-agent given only the property text, one-line descriptions of earlier changes for the property, and a scratch worktree",
            "confirmed": {"suite_unchanged_plus_demo": {"passed": ap, "failed": af},
                          "suite_with_change_plus_demo": {"passed": bp, "failed": bf, "failing_tests": [x for x in failing.split(',') if x and not x.startswith('test result')]},
                          "ok": ok,
                          "how": "tools/verify_seeded.sh: scratch worktree of /repo HEAD under /tmp, cargo test --workspace --no-fail-fast --offline, once with demo.diff only and once with demo.diff + patch.diff"},
            "needs_to_manifest": "see README.md (written by the author of the change)",
            "check_result": {"command": f"git -C /repo apply seeded/{tag}/patch.diff && ./check {ID} quick; git -C /repo checkout -- .",
                             "output": f"{prop} exit={rc} {sigs}", "caught": rc == 1,
                             "from": "final regression run of all kept changes against a frozen copy of the final checks (seeded/REGRESSION.log)"},
        }
        if glob.glob(f'{src}/patch.orig-*.diff'):
            meta["rebased"] = "patch.diff was re-based by hand onto a later fix: commit in /repo (its defect kept) and re-verified; the author's original is kept as patch.orig-<commit>.diff"
        if tag in NOTES:
            meta.update(NOTES[tag])
        json.dump(meta, open(f'{dst}/meta.json', 'w'), indent=1)
        n += 1
        print(tag, 'ok' if ok else 'NOT-CONFIRMED', 'caught' if rc == 1 else f'NOT CAUGHT rc={rc}')
print(n, 'kept')
