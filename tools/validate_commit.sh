#!/bin/bash
# usage: validate_commit.sh <commit>...   run the repository's own test suite (guard off) on each commit
# in a scratch worktree under /tmp; prints "<commit> passed=<n> failed=<n>"; cleans up after itself.
set -u
TGT=/tmp/axwt-target
for C in "$@"; do
  WT=/tmp/axwt-$C
  git -C /repo worktree remove --force "$WT" >/dev/null 2>&1
  git -C /repo worktree add --detach "$WT" "$C" >/dev/null 2>&1 || { echo "$C worktree failed"; continue; }
  OUT=$(cd "$WT" && CARGO_NET_OFFLINE=true CARGO_TARGET_DIR=$TGT cargo test --workspace --no-fail-fast --offline 2>&1)
  P=$(echo "$OUT" | grep -E "^test result:" | sed -E 's/.* ([0-9]+) passed.*/\1/' | paste -sd+ | bc)
  F=$(echo "$OUT" | grep -E "^test result:" | sed -E 's/.* ([0-9]+) failed.*/\1/' | paste -sd+ | bc)
  echo "$C passed=$P failed=$F"
  echo "$OUT" | grep -E "^test .* FAILED|panicked|^error" | head -10
  git -C /repo worktree remove --force "$WT" >/dev/null 2>&1
done
rm -rf $TGT
