#!/usr/bin/env python3
"""Create /verif/mutants/<id>.diff: deliberate property-breaking edits of /repo (never committed there).
Each entry: (id, property, file, old, new, note). Run from a clean /repo."""
import subprocess, sys, os, json
M = [
 # C06
 ("C06-a","C06","src/instructions/div.rs","        if src_val == 0 {\n            return Err(AxError::from(format!(\n                \"Divide by zero in Div_rm8","        if false {\n            return Err(AxError::from(format!(\n                \"Divide by zero in Div_rm8","drop the zero-divisor check of DIV r/m8 (a panic / wrong result instead of an error)"),
 ("C06-b","C06","src/state/memory.rs","        if area.access & PROT_READ == 0 {\n            return Err(AxError::from(format!(\n                \"Cannot read {} bytes","        if area.access & PROT_READ == 0 && length > 8 {\n            return Err(AxError::from(format!(\n                \"Cannot read {} bytes","reads of up to 8 bytes skip the PROT_READ test"),
 # C07
 ("C07-a","C07","src/state/registers.rs","        let result_value = (reg_value & 0xFFFF_FFFF_FFFF_0000) | value;","        let result_value = (reg_value & 0x0000_0000_FFFF_0000) | value;","reg_write_16 clears bits 32-63"),
 ("C07-b","C07","src/state/registers.rs","            ((reg_value & 0xFF00) >> 8) as u8\n        } else {\n            (reg_value & 0xFF) as u8\n        };\n\n        debug_log!(\"Read value {:#x} from {:?}\", result_value, reg);","            ((reg_value & 0xFF00) >> 8) as u8\n        } else {\n            (reg_value & 0xFF) as u8\n        };\n        let result_value = if is_high && reg == SupportedRegister::DH { (reg_value & 0xFF) as u8 } else { result_value };\n\n        debug_log!(\"Read value {:#x} from {:?}\", result_value, reg);","reading DH returns DL"),
 # C08
 ("C08-a","C08","src/state/memory.rs","        if length > area.length - (address - area.start) {","        if length > area.length - (address - area.start) + 1 {","off-by-one in the end-of-range test of mem_read_bytes (one byte past the end is readable -> panic or stray byte)"),
 ("C08-b","C08","src/state/memory.rs","        Ok(u32::from_le_bytes(bytes.try_into().unwrap()) as u64)","        Ok(if address % 4096 == 4093 { u32::from_be_bytes(bytes.try_into().unwrap()) } else { u32::from_le_bytes(bytes.try_into().unwrap()) } as u64)","mem_read_32 is big-endian for one address class"),
 # C09
 ("C09-a","C09","src/state/memory.rs","        if area.access & PROT_WRITE == 0 {","        if area.access & PROT_WRITE == 0 && area.access & PROT_EXEC == 0 {","writes to executable areas skip the PROT_WRITE test (self-modifying code allowed)"),
 ("C09-b","C09","src/state/memory.rs","        if area.access & PROT_EXEC == 0 {","        if area.access & (PROT_EXEC | PROT_READ) == 0 {","instruction fetch accepts readable, non-executable areas"),
 # C10
 ("C10-a","C10","src/state/memory.rs","    if a_start >= b_start {\n        a_start - b_start < b_length\n    } else {\n        b_start - a_start < a_length\n    }","    if a_start >= b_start {\n        a_start - b_start < b_length\n    } else {\n        b_start - a_start < a_length - 1\n    }","overlap test misses a range that reaches exactly one byte into a higher area"),
 ("C10-b","C10","src/state/memory.rs","            let copy_len = std::cmp::min(old_data.len(), new_data.len());","            let copy_len = std::cmp::min(old_data.len(), new_data.len()) & !0x7;","resize copies the prefix only in multiples of 8 bytes"),
 # C11
 ("C11-a","C11","src/state/execute.rs","            if self.state.executed_instructions_count >= limit {","            if self.state.executed_instructions_count > limit {","limit test > instead of >= (one instruction too many)"),
 ("C11-b","C11","src/state/execute.rs","            if e.signals_normal_finish {\n                self.state.finished = true;","            if e.signals_normal_finish {\n                self.state.finished = true;\n                self.state.executed_instructions_count -= 1;","the finishing RET is not counted"),
 # C12
 ("C12-a","C12","src/state/hooks.rs","            if ax.state.finished || res == HookResult::Handled {","            if ax.state.finished || (res == HookResult::Handled && before) {","Handled no longer short-circuits after-hooks"),
 ("C12-b","C12","src/state/hooks.rs","                    ax.hooks.running = false;\n                    ax.state.finished |= was_finished;\n                    return Err(e.into());","                    ax.state.finished |= was_finished;\n                    return Err(e.into());","re-introduce the stale running flag after a failing hook"),
 # C13
 ("C13-a","C13","src/helpers/syscalls.rs","            ax.reg_write_64(RAX, ax.state.syscalls.brk_start + new_length)?;","            ax.reg_write_64(RAX, ax.state.syscalls.brk_start + (new_length & !0xf))?;","brk returns a 16-byte-rounded break"),
 ("C13-b","C13","src/state/memory.rs","            new_data[..copy_len].copy_from_slice(&old_data[..copy_len]);","            if new_data.len() < old_data.len() || copy_len < 0x2000 { new_data[..copy_len].copy_from_slice(&old_data[..copy_len]); }","growing a section beyond 8 KiB of old data loses the contents"),
 # C14
 ("C14-a","C14","src/helpers/syscalls.rs","                .insert(fd, available_content[max_bytes as usize..].to_vec());","                .insert(fd, if max_bytes > 255 { available_content[..available_content.len() - max_bytes as usize].to_vec() } else { available_content[max_bytes as usize..].to_vec() });","a partial read of more than 255 bytes keeps the wrong part of the buffer"),
 ("C14-b","C14","src/helpers/syscalls.rs","            let write_end = match ax.state.syscalls.pipes_write_ends.get(&fd) {\n                Some(write_end) => *write_end,\n                // Maybe another hook will handle this fd\n                None => return Ok(HookResult::Unhandled),","            let write_end = match ax.state.syscalls.pipes_write_ends.get(&fd) {\n                Some(write_end) => *write_end,\n                // Maybe another hook will handle this fd\n                None => match ax.state.syscalls.pipe_contents.contains_key(&fd) { true => fd, false => return Ok(HookResult::Unhandled) },","write() on a read end is accepted as a write to that pipe"),
 # C15
 ("C15-a","C15","src/elf/elf.rs","    if flags & PF_W != 0 {\n        proc_flags |= PROT_WRITE;\n    }","    if flags & PF_W != 0 && flags & PF_X == 0 {\n        proc_flags |= PROT_WRITE;\n    }","W+X segments are mapped without write permission"),
 ("C15-b","C15","src/elf/elf.rs","                        .insert(symbol.st_value, name.to_string());","                        .insert(symbol.st_value & !1, name.to_string());","symbols at odd addresses are registered at the even address below"),
 # C16
 ("C16-a","C16","src/elf/elf.rs","                    if segment.p_memsz > MAX_SEGMENT_MEMORY_SIZE {","                    if segment.p_memsz > MAX_SEGMENT_MEMORY_SIZE && segment.p_filesz > 0 {","the size limit is skipped for pure-bss segments"),
 ("C16-b","C16","src/elf/elf.rs","            let content = file.segment_data(&segment)?;","            let content = if segment.p_type == PT_NOTE { &binary[segment.p_offset as usize..(segment.p_offset + segment.p_filesz) as usize] } else { file.segment_data(&segment)? };","PT_NOTE data is sliced without a bounds check"),
 # C17
 ("C17-a","C17","src/state/memory.rs","        if stack_layout.len() % 2 == 1 {","        if stack_layout.len() % 2 == 1 && stack_layout.len() < 64 {","parity adjustment skipped for long lists (misaligned RSP)"),
 ("C17-b","C17","src/state/memory.rs","            let str_addr = self.mem_init_anywhere(env_bytes, Some(format!(\"env{i}\")))?;","            let str_addr = if env.is_empty() && i > 0 { stack_layout[stack_layout.len() - 1] } else { self.mem_init_anywhere(env_bytes, Some(format!(\"env{i}\")))? };","an empty environment string re-uses the previous string's address"),
 # C18
 ("C18-a","C18","src/helpers/trace.rs","                TraceVariant::Return => lvl -= 1,","                TraceVariant::Return => lvl -= if lvl > 3 { 2 } else { 1 },","nesting level drops by two when returning from depth > 3"),
 ("C18-b","C18","src/helpers/trace.rs","                    if last.instr_ip == instr_ip\n                        && last.target == target","                    if last.target == target","jump repetition collapses jumps from different sources to one target"),
 # C19
 ("C19-a","C19","src/state/memory.rs","        let slice = &area.data[offset..min(offset + 15, area.data.len())];","        let slice = &area.data[offset..offset + min(15, area.data.len())];","executable fetch slices 15 bytes even near the end of an area (panic)"),
 # C20
 ("C20-a","C20","src/instructions/inc.rs","        calculate_rm![u64f; self; i; |val: u64| {\n            let result = val.wrapping_add(1);\n            (\n                result,\n                if val & 0x8000_0000_0000_0000 == 0 && result","        let stray = self.reg_read_64(crate::state::registers::SupportedRegister::R11)? & 1;\n        calculate_rm![u64f; self; i; |val: u64| {\n            let result = val.wrapping_add(1).wrapping_add(if val == 7 { stray } else { 0 });\n            (\n                result,\n                if val & 0x8000_0000_0000_0000 == 0 && result","INC r/m64 of the value 7 adds bit 0 of R11 (reads a register it does not name)"),
 ("C20-b","C20","src/state/execute.rs","                        \"executing instruction {} ({:?}) after executing {} instructions: \",\n                        instr,\n                        instr.code(),\n                        self.state.executed_instructions_count\n","                        \"executing instruction {} ({:?}) after executing {} instructions [hooks {}]: \",\n                        instr,\n                        instr.code(),\n                        self.state.executed_instructions_count,\n                        self.hooks\n","error text of a failing instruction lists the hook table in HashMap iteration order"),
]
def main():
    os.chdir('/repo')
    assert subprocess.run(['git','status','--porcelain'],capture_output=True,text=True).stdout.strip()=='' , 'repo dirty'
    meta=[]
    for (mid,prop,path,old,new,note) in M:
        if old is None: continue
        s=open(path).read()
        if s.count(old)!=1:
            print('SKIP',mid,'pattern count',s.count(old)); continue
        open(path,'w').write(s.replace(old,new))
        d=subprocess.run(['git','diff'],capture_output=True,text=True).stdout
        open(f'/verif/mutants/{mid}.diff','w').write(d)
        subprocess.run(['git','checkout','--','.'])
        meta.append({"id":mid,"property":prop,"note":note})
    json.dump(meta,open('/verif/mutants/index.json','w'),indent=1)
    print(len(meta),'mutants')
main()
