#!/bin/bash
# usage: sensitivity.sh [mutant-id ...]   apply each deliberate mutant (or seeded change) to /repo, run the quick
# check of its property, expect exit 1, and always restore /repo. Prints one line per mutant.
cd /verif || exit 2
if [ -n "$(git -C /repo status --porcelain)" ]; then echo "repo dirty"; exit 2; fi
IDS="$@"; [ -z "$IDS" ] && IDS=$(python3 -c "import json;print(' '.join(m['id'] for m in json.load(open('/verif/mutants/index.json'))))")
for id in $IDS; do
  P=${id%%-*}
  if ! git -C /repo apply /verif/mutants/$id.diff 2>/dev/null; then echo "$id APPLY-FAILED"; continue; fi
  OUT=$(./check $P quick 2>&1); rc=$?
  git -C /repo checkout -- . ; git -C /repo clean -fdq src tests 2>/dev/null
  SIGS=$(echo "$OUT" | grep -E "axsim: violation|further distinct" | sed -E 's/axsim: violation //; s/axsim: further distinct signatures not minimised: //; s/ ::.*//; s/ \([0-9]+ runs?\)//' | head -4 | tr '\n' ';')
  echo "$id exit=$rc $SIGS"
done
