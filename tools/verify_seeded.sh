#!/bin/bash
# usage: verify_seeded.sh <ID> <N> ...   confirm a sub-agent's change in a scratch worktree:
#   run A: unchanged code + demo  -> everything passes
#   run B: change + demo          -> the 2300 existing tests pass, only demo tests fail
# prints one summary line per change; cleans up the worktree (keeps the shared target dir /tmp/vs-target).
ID=$1; shift
for N in "$@"; do
  D=${SEEDROOT:-/tmp/seed}/$ID/out/change$N
  WT=/tmp/vs${ROUND:-}-$ID-$N
  git -C /repo worktree remove --force $WT >/dev/null 2>&1
  git -C /repo worktree add --detach $WT HEAD >/dev/null 2>&1 || { echo "$ID/$N worktree failed"; continue; }
  cd $WT
  if ! git apply $D/demo.diff; then echo "$ID/$N demo.diff does not apply"; cd /; git -C /repo worktree remove --force $WT; continue; fi
  A=$(CARGO_NET_OFFLINE=true CARGO_TARGET_DIR=${VSTARGET:-/tmp/vs-target} cargo test --workspace --no-fail-fast --offline 2>&1)
  AP=$(echo "$A" | grep -E "^test result:" | sed -E 's/.* ([0-9]+) passed.*/\1/' | paste -sd+ | bc); AF=$(echo "$A" | grep -E "^test result:" | sed -E 's/.* ([0-9]+) failed.*/\1/' | paste -sd+ | bc)
  if ! git apply $D/patch.diff; then echo "$ID/$N patch.diff does not apply"; cd /; git -C /repo worktree remove --force $WT; continue; fi
  B=$(CARGO_NET_OFFLINE=true CARGO_TARGET_DIR=${VSTARGET:-/tmp/vs-target} cargo test --workspace --no-fail-fast --offline 2>&1)
  BP=$(echo "$B" | grep -E "^test result:" | sed -E 's/.* ([0-9]+) passed.*/\1/' | paste -sd+ | bc); BF=$(echo "$B" | grep -E "^test result:" | sed -E 's/.* ([0-9]+) failed.*/\1/' | paste -sd+ | bc)
  FAILED=$(echo "$B" | grep -E "^test .* FAILED" | sed -E 's/^test (.*) \.\.\. FAILED/\1/' | tr '\n' ',')
  echo "$ID/$N unchanged+demo: passed=$AP failed=$AF | change+demo: passed=$BP failed=$BF failing=[$FAILED]"
  cd /; git -C /repo worktree remove --force $WT >/dev/null 2>&1
done
