#!/bin/bash
# usage: try_seeded.sh <patch.diff> <PROP> [more props]   apply a change to /repo, run quick checks, restore /repo
cd ${VERIF_ROOT:-/verif} || exit 2
if [ -n "$(git -C ${REPO_ROOT:-/repo} status --porcelain)" ]; then echo "repo dirty"; exit 2; fi
PATCH=$1; shift
git -C ${REPO_ROOT:-/repo} apply "$PATCH" || { echo "APPLY-FAILED"; exit 2; }
for P in "$@"; do
  OUT=$(./check $P ${TIER:-quick} 2>&1); rc=$?
  SIGS=$(echo "$OUT" | grep -E "axsim: violation|further distinct" | sed -E 's/axsim: violation //; s/axsim: further distinct signatures not minimised: //; s/ ::.*//; s/ \([0-9]+ runs?\)//' | head -5 | tr '\n' ';')
  echo "$P exit=$rc $SIGS"
  [ $rc -eq 2 ] && echo "$OUT" | tail -5
done
git -C ${REPO_ROOT:-/repo} checkout -- . ; git -C ${REPO_ROOT:-/repo} clean -fdq src tests 2>/dev/null
