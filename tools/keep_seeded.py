#!/usr/bin/env python3
"""keep_seeded.py <ID> <N> : after verify_seeded.sh confirmed a sub-agent's change (line in /tmp/vs-all.log or
/tmp/vs-<ID>.log) copy it to /verif/seeded/<ID>-<N>/ with meta.json, and record which quick checks catch it."""
import sys, os, shutil, json, subprocess, re, glob
ID, N = sys.argv[1], sys.argv[2]
ROOT = os.environ.get('SEEDROOT', '/tmp/seed')
SUFFIX = os.environ.get('SUFFIX', '')   # e.g. 'r2' -> seeded/C12-r2-1
src = f'{ROOT}/{ID}/out/change{N}'
line = None
for f in glob.glob(os.environ.get('VSLOGS', '/tmp/vs-*.log')):
    for l in open(f):
        if l.startswith(f'{ID}/{N} '): line = l.strip()
if not line: sys.exit(f'no verification line for {ID}/{N}')
m = re.search(r'unchanged\+demo: passed=(\d+) failed=(\d+) \| change\+demo: passed=(\d+) failed=(\d+) failing=\[(.*?)\]', line)
ap, af, bp, bf, failing = int(m.group(1)), int(m.group(2)), int(m.group(3)), int(m.group(4)), m.group(5)
ok = af == 0 and bf >= 1 and bp >= 2300
TAG = f'{ID}-{SUFFIX}-{N}' if SUFFIX else f'{ID}-{N}'
dst = f'/verif/seeded/{TAG}'
os.makedirs(dst, exist_ok=True)
for f in ['patch.diff', 'demo.diff', 'README.md']:
    shutil.copy(f'{src}/{f}', f'{dst}/{f}')
out = subprocess.run([os.environ.get('TRY', '/verif/tools/try_seeded.sh'), f'{dst}/patch.diff', ID], capture_output=True, text=True).stdout.strip()
rc = re.search(r'exit=(\d)', out)
readme = open(f'{src}/README.md').read()
meta = {
  "id": TAG, "property": ID, "origin": "independent sub-agent given only the property text and a scratch worktree",
  "confirmed": {"suite_unchanged_plus_demo": {"passed": ap, "failed": af}, "suite_with_change_plus_demo": {"passed": bp, "failed": bf, "failing_tests": [x for x in failing.split(',') if x and not x.startswith('test result')]}, "ok": ok,
                "how": "tools/verify_seeded.sh: scratch worktree of /repo HEAD under /tmp, cargo test --workspace --no-fail-fast --offline, once with demo.diff only and once with demo.diff + patch.diff"},
  "needs_to_manifest": "see README.md (written by the author of the change)",
  "check_result": {"command": f"git -C /repo apply seeded/{TAG}/patch.diff && ./check {ID} quick; git -C /repo checkout -- .", "output": out, "caught": bool(rc and rc.group(1) == '1')},
}
json.dump(meta, open(f'{dst}/meta.json', 'w'), indent=1)
print(ID, N, 'ok' if ok else 'NOT-CONFIRMED', out[:200])
