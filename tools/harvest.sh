#!/bin/bash
# usage: harvest.sh <PROP> <tier> <seed-from> <seed-to>   collect every signature (known or not) seen per seed.
# AXSIM_BIN=<path> uses that binary instead of sim/target/release/axsim (copy it once for a long campaign).
# Runs from a private copy of the built binary and a private VERIF_DIR, so it is not disturbed by later edits
# of /verif/sim or /repo. Prints "seed exit unlisted=[...] known=[...]". Used for the false-alarm campaign.
P=$1; T=$2; A=$3; B=$4
cd /verif || exit 2
D=/tmp/campaign-$P-$$
mkdir -p $D
if [ -z "$NOBUILD" ]; then ./check build >/dev/null || exit 2; fi
cp ${AXSIM_BIN:-sim/target/release/axsim} $D/axsim; cp ${AXSIM_ARITH_SRC:-sim/target/arith/axsim} $D/axsim-arith; cp known_findings.json $D/
for s in $(seq $A $B); do
  env AXSIM_ARITH_BIN=$D/axsim-arith VERIF_SEED=$s VERIF_MAX_MINIMISE=0 VERIF_DIR=$D ${WORKERS:+VERIF_WORKERS=$WORKERS} $D/axsim run $P $T >$D/log 2>&1; rc=$?
  python3 - "$D" "$P" "$s" "$rc" <<'PY'
import json,sys
d,p,s,rc=sys.argv[1:5]
e=json.load(open(f'{d}/evidence/{p}.json'))['coverage']
print(p, s, rc, 'unlisted=', sorted(e['unlisted_signatures']), 'known=', len(e['known_findings_hit']), 'herr=', e['harness_errors'][:2], 'audit=', e['determinism_audit'])
PY
done
rm -rf $D
