#!/bin/bash
# usage: harvest.sh <PROP> <tier> <seed-from> <seed-to>   collect every signature (known or not) seen per seed
# prints "seed exit unlisted=[...] known=[...]"; used for the false-alarm campaign and for harvesting known findings
P=$1; T=$2; A=$3; B=$4
cd /verif || exit 2
./check build >/dev/null || exit 2
for s in $(seq $A $B); do
  VERIF_SEED=$s VERIF_MAX_MINIMISE=0 VERIF_DIR=/verif ./sim/target/release/axsim run $P $T >/tmp/harvest-$P.log 2>&1; rc=$?
  python3 - "$P" "$s" "$rc" <<'PY'
import json,sys
p,s,rc=sys.argv[1:4]
e=json.load(open(f'/verif/evidence/{p}.json'))['coverage']
print(s, rc, 'unlisted=', sorted(e['unlisted_signatures']), 'known=', sorted(e['known_findings_hit']), 'herr=', e['harness_errors'][:2])
PY
done
