#!/usr/bin/env python3
"""Regenerate /verif/MANIFEST.json from the table below (kept in one place so it is always valid)."""
import json, subprocess
hooks = [l.split()[0] for l in subprocess.check_output(['git','-C','/repo','log','--format=%h %s']).decode().splitlines() if l.split()[1] == 'verif']
hooks.reverse()
NA = {
 "C01": "pure function of (instruction bytes, register/flag/memory state) judged against real silicon: no schedule, fault, clock or interleaving for a simulator to vary; needs differential testing or SMT, a different family",
 "C02": "same as C01: flag results per instruction and operand value are a pure function with a hardware oracle",
 "C03": "same as C01: branch conditions and target arithmetic per instruction are a pure function with a hardware oracle",
 "C04": "PUSH/POP/CALL/RET slot convention against hardware is a pure function of a short program and its initial state; faulting stack accesses are covered under C09 in a way that does not depend on the convention",
 "C05": "effective-address arithmetic per addressing form is a pure function with a hardware oracle",
}
CHECKS = {
 "C07": ("E1 api-sim","exploration","seeded histories of register-API calls against a reference register file, all 33 registers compared after every call; wrong-width views, EIP and oversized values as injected faults","5 C07","seeded history simulation against a reference register file"),
 "C08": ("E1 api-sim","exploration","seeded histories of API and guest accesses interleaved on one byte store, with edge/extreme addresses and lengths as injected faults; byte-map model plus a flat address->byte shadow that also records the initial contents of every fresh area, rights taken away and given back, empty accesses far from mapped memory, all areas compared after every operation","5 C08","seeded history simulation with fault injection against a byte-map model"),
 "C09": ("E1 api-sim","fault_enumeration","all 8 permission masks x all access paths (API read/write, guest load/store/RMW, implicit stack store/load, fetch, fetch of an instruction straddling into a neighbour area, constructor code area) enumerated in every run, permission revoked by mem_prot right before the access; values sampled","5 C09","permission-revocation fault enumeration over access paths"),
 "C10": ("E1 api-sim + E4 load-sim","exploration","seeded histories of area creation/anywhere/stack/program-start/resize/prot with requests placed relative to existing areas; interval-set model; bounded liveness of the retry loops through the fuel seam; plus ELF load as a creation path: images whose PT_LOAD headers are moved into each other must never leave intersecting areas","5 C10","seeded history simulation against an interval-set model, fuel-bounded liveness"),
 "C11": ("E2 run-sim","exploration","three drivers of one scenario (one execute(), step loop, execute bursts pre-empted by limits) must agree; per-step oracle on count/return/RIP/finished; stepping after finish/limit must fail and change nothing","5 C11","schedule-equivalence simulation (step vs execute vs pre-empted bursts) with scripted hooks"),
 "C12": ("E2 run-sim","exploration","hook-protocol automaton over programs with scripted hooks (unhandled/handled/stop/error/mutate/re-entrant register), registration attempted after failed steps, stops, finish, limit and from inside hooks; the host stops the machine between steps; traps nobody registered a hook for; hooks registered on a set-aside clone must never run on the machine under test","5 C12","multi-party callback-protocol simulation with failing/stopping/re-entrant hooks"),
 "C18": ("E2 run-sim","exploration","independent tracer (iced decode + observed RIP) against structured trace and call stack after every step, rendered trace()/call_stack() text checked against the structured view, renderers called on every error path, unbalanced returns, deep recursion, redirected indirect jumps, calls to stubs that jump through memory, loops that push the trace beyond 4096 entries and faulting endings generated on purpose","5 C18","seeded program simulation with an independent control-flow tracer"),
 "C20": ("E2 run-sim + E5 insn-sim + E3 sys-sim + E4 load-sim","exploration","two machines differing only in the RNG-seam stream (and a second process with different HashMap keys via the audit) compared per step and at the end, a third of them loaded from ELF images with aliased symbols (rendered texts compared); plus every catalogue form x operand shape stepped on two machines that differ only in the registers the instruction does not mention; guest programs against the built-in brk/pipe handlers on two machines (and with other descriptor numbers handed out); process start (image + argv/envp) on two machines","5 C20","paired-machine determinism simulation varying RNG seam, symbol aliasing and process"),
}
import os
extra = json.load(open('/verif/tools/manifest_extra.json')) if os.path.exists('/verif/tools/manifest_extra.json') else {}
for k, v in extra.get('checks', {}).items():
    CHECKS[k] = tuple(v)
for k in extra.get('not_applicable', {}):
    NA[k] = extra['not_applicable'][k]
checks = []
for pid in sorted(CHECKS):
    eng, cat, text, ref, tech = CHECKS[pid]
    checks.append({
        "property_id": pid,
        "quick_cmd": f"./check {pid} quick",
        "thorough_cmd": f"./check {pid} thorough",
        "evidence_file": f"/verif/evidence/{pid}.json",
        "replay_cmd_template": "./check replay {path}",
        "engine": eng,
        "level_claimed": {"category": cat, "text": text, "design_ref": f"DESIGN.md section {ref}"},
        "level_note": "trusted: iced-x86 1.21.0 (decoder, encoder, operand-access facts), the harness's reference models, release arithmetic profile, hooks H1-H5 (fatal_error! family returns Err, RNG and fuel seams); sampling, not proof",
        "technique": tech,
    })
m = {
 "version": 1,
 "setup_cmd": "./check build",
 "hooks": {
   "guard": "--cfg ax_verif",
   "enable": "rustflags = [\"--cfg\", \"ax_verif\"] in /verif/sim/.cargo/config.toml; /verif/sim depends on ax-x86 by path = /repo, so every check rebuilds /repo's working tree with the hooks on",
   "baseline_off_cmd": "cd /repo && cargo test --workspace --no-fail-fast --offline",
   "source_commits": hooks,
   "add_only": True,
 },
 "engines": [
   {"name": "E1 api-sim", "path": "/verif/sim/src/e1.rs", "serves_properties": ["C07","C08","C09","C10"], "kind_free_text": "seeded histories of host API calls interleaved with single guest instructions against reference models"},
   {"name": "E2 run-sim", "path": "/verif/sim/src/e2.rs", "serves_properties": ["C11","C12","C18","C20"], "kind_free_text": "generated guest programs under scripted host hooks, seeded scheduler of steps / execute bursts / host actions"},
 ] + extra.get('engines', []),
 "checks": checks,
 "notes": "Deterministic simulation with fault injection; one binary (sim/), one wrapper (./check). Exit 0 held / 1 violation (VIOLATION line + replay file that reproduced in a fresh process) / 2 harness error. Known findings: /verif/known_findings.json. " + extra.get('notes', ''),
 "not_applicable": [{"property_id": k, "reason": NA[k]} for k in sorted(NA)],
}
json.dump(m, open('/verif/MANIFEST.json', 'w'), indent=1)
print("checks:", [c['property_id'] for c in checks], "na:", sorted(NA))
