#!/usr/bin/env python3
"""List the iced_x86::Code values whose instr_* function in /repo/src/instructions does not
contain opcode_unimplemented! (same rule as the repository's stats.py). Prints one
`Code mnemonic_fn instr_fn` line per implemented form, sorted."""
import os, re, sys
root = sys.argv[1] if len(sys.argv) > 1 else "/repo/src/instructions"
out = []
for fn in sorted(os.listdir(root)):
    if not fn.endswith(".rs"):
        continue
    c = open(os.path.join(root, fn)).read()
    if not ("impl Axecutor" in c and "pub(crate) fn mnemonic" in c and "match i.code" in c):
        continue
    # dispatch table: Code => self.instr_xxx(i)
    table = [(m.group(2), m.group(1)) for m in re.finditer(r"^\s*(?:iced_x86::)?(?:Code::)?([A-Za-z0-9_]+)\s*=>\s*self\.(instr_[a-z0-9_]+)\(i\)", c, re.M)]
    for m in re.finditer(r"fn (instr_[a-z0-9_]+).*?\{", c, re.S):
        lvl = 0
        for i in range(m.start(), len(c)):
            if c[i] == "{": lvl += 1
            elif c[i] == "}":
                lvl -= 1
                if lvl <= 0:
                    body = c[m.start():i+1]; break
        name = m.group(1)
        if "opcode_unimplemented!" in body:
            continue
        # several Codes may map onto one function
        for f, code in table:
            if f == name:
                out.append((code, fn[:-3], name))
for code, mn, f in sorted(set(out)):
    print(code, mn, f)
