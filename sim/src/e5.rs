//! E5 insn-sim: one instruction from the frozen catalogue of implemented forms (or arbitrary /
//! corrupted bytes), encoded with iced for every operand shape, placed in a layout chosen by the
//! fault plan. Serves C06 (fault exactness), C19 (no crash on arbitrary code), and the
//! instruction part of C09 (permissions on every form that touches memory).

use std::cell::RefCell;
use std::sync::OnceLock;

use ax_x86::axecutor::Axecutor;
use ax_x86::state::hooks::HookResult;
use ax_x86::state::registers::SupportedRegister as SR;
use iced_x86::{
    Code, Decoder, DecoderOptions, Encoder, Instruction, InstructionInfoFactory, MemorySize, Mnemonic, OpAccess, OpCodeOperandKind as K, OpKind, Register,
};
use serde::{Deserialize, Serialize};
use serde_json::Value;

use crate::common::*;
use crate::engine::Engine;
use crate::hooks::{set_dispatch, supported, tramp_ref};
use crate::rng::{mix, Rng};

pub const CODE: u64 = 0x1_0000;
pub const DATA: u64 = 0x20_0000;
pub const DATA_LEN: u64 = 0x1000;
pub const STACK: u64 = 0x30_0000;
pub const STACK_LEN: u64 = 0x1000;
pub const UNMAPPED: u64 = 0x7000_0000;
pub const FS_BASE: u64 = 0x1000;

#[derive(Serialize, Deserialize, Clone, Debug, PartialEq)]
pub struct Sc {
    pub mode: String, // c06 | c09 | c19 | c19_midrun
    pub code_name: String,
    pub shape: String,
    pub fault: String,
    pub bytes: String,
    pub gpr: Vec<u64>, // 16, in common::GPR64 order
    pub xmm_seed: u64,
    pub flags: u64,
    pub fs: u64,
    pub gs: u64,
    pub data_seed: u64,
    pub prot_data: u32,
    pub prot_stack: u32,
    pub prot_code: u32,
    pub extra_steps: u32,
    /// c19_midrun: bit flips applied to the code area after `flip_at` steps: (byte offset, bit)
    pub flips: Vec<(u64, u32)>,
    pub flip_at: u32,
    /// bytes written into the data area before the step: (address, value, size)
    #[serde(default)]
    pub poke: Vec<(u64, u64, u32)>,
    /// the code area ends right after `bytes` (no NOP padding): instructions cut off by the end of the area
    #[serde(default)]
    pub no_pad: bool,
    /// the data area was created larger and then shrunk to its size by mem_resize_section (stale bytes behind its end)
    #[serde(default)]
    pub shrunk: bool,
    /// an inaccessible (PROT_NONE) area directly behind the data area
    #[serde(default)]
    pub neighbour: bool,
    /// before the instruction under test the machine executed one RET (placed behind the padding) that
    /// returned to it: returns then outnumber calls and the shadow call stack is empty
    #[serde(default)]
    pub prelude_ret: bool,
    /// c19: the built-in syscall handlers (brk, pipe, arch_prctl, exit) are installed before the scripted
    /// hook, and an empty area sits at the address their placement loops probe first
    #[serde(default)]
    pub builtin: bool,
    /// c06: after the step the host revokes PROT_EXEC from the code area and sends the machine back to
    /// the same address: what ran a moment ago must now be refused at the fetch
    #[serde(default)]
    pub refetch_revoked: bool,
    /// zero-length areas that start *inside* the data area and the stack (an empty range overlaps nothing, so
    /// they are accepted): every access at or above them still belongs to the area around them
    #[serde(default)]
    pub empties: bool,
}

pub struct E5Engine;
pub static E5: E5Engine = E5Engine;

// ------------------------------------------------------------------------------------------
// catalogue
// ------------------------------------------------------------------------------------------

pub fn catalogue() -> &'static Vec<(Code, String)> {
    static C: OnceLock<Vec<(Code, String)>> = OnceLock::new();
    C.get_or_init(|| {
        let text = include_str!("../../data/implemented_codes.txt");
        let names: Vec<&str> = text.lines().filter_map(|l| l.split_whitespace().next()).collect();
        let mut v = Vec::new();
        for c in Code::values() {
            let n = format!("{c:?}");
            if names.contains(&n.as_str()) {
                v.push((c, n));
            }
        }
        v
    })
}

const R8: [Register; 20] = [
    Register::AL, Register::CL, Register::DL, Register::BL, Register::AH, Register::CH, Register::DH, Register::BH, Register::SPL, Register::BPL, Register::SIL, Register::DIL,
    Register::R8L, Register::R9L, Register::R10L, Register::R11L, Register::R12L, Register::R13L, Register::R14L, Register::R15L,
];
const R16: [Register; 16] = [
    Register::AX, Register::CX, Register::DX, Register::BX, Register::SP, Register::BP, Register::SI, Register::DI, Register::R8W, Register::R9W, Register::R10W, Register::R11W,
    Register::R12W, Register::R13W, Register::R14W, Register::R15W,
];
const R32: [Register; 16] = [
    Register::EAX, Register::ECX, Register::EDX, Register::EBX, Register::ESP, Register::EBP, Register::ESI, Register::EDI, Register::R8D, Register::R9D, Register::R10D, Register::R11D,
    Register::R12D, Register::R13D, Register::R14D, Register::R15D,
];
const R64: [Register; 16] = [
    Register::RAX, Register::RCX, Register::RDX, Register::RBX, Register::RSP, Register::RBP, Register::RSI, Register::RDI, Register::R8, Register::R9, Register::R10, Register::R11,
    Register::R12, Register::R13, Register::R14, Register::R15,
];
const XMMS: [Register; 16] = [
    Register::XMM0, Register::XMM1, Register::XMM2, Register::XMM3, Register::XMM4, Register::XMM5, Register::XMM6, Register::XMM7, Register::XMM8, Register::XMM9, Register::XMM10,
    Register::XMM11, Register::XMM12, Register::XMM13, Register::XMM14, Register::XMM15,
];

/// memory operand shapes: (name, base, index, scale, displacement size, address-size-32, segment)
#[derive(Clone, Copy, Debug)]
pub struct MemShape {
    pub name: &'static str,
    pub base: Register,
    pub index: Register,
    pub scale: u32,
    pub displ: u32, // 0, 1, 4, 8
    pub seg: Register,
}

pub const MEM_SHAPES: [MemShape; 17] = [
    MemShape { name: "base", base: Register::RBX, index: Register::None, scale: 1, displ: 0, seg: Register::None },
    MemShape { name: "base+disp8", base: Register::RSI, index: Register::None, scale: 1, displ: 1, seg: Register::None },
    MemShape { name: "base+disp32", base: Register::R9, index: Register::None, scale: 1, displ: 4, seg: Register::None },
    MemShape { name: "rsp+disp8", base: Register::RSP, index: Register::None, scale: 1, displ: 1, seg: Register::None },
    MemShape { name: "rbp", base: Register::RBP, index: Register::None, scale: 1, displ: 1, seg: Register::None },
    MemShape { name: "r12", base: Register::R12, index: Register::None, scale: 1, displ: 0, seg: Register::None },
    MemShape { name: "r13", base: Register::R13, index: Register::None, scale: 1, displ: 1, seg: Register::None },
    MemShape { name: "base+index*1", base: Register::RDI, index: Register::R10, scale: 1, displ: 0, seg: Register::None },
    MemShape { name: "base+index*2+disp8", base: Register::R11, index: Register::RSI, scale: 2, displ: 1, seg: Register::None },
    MemShape { name: "base+index*4+disp32", base: Register::RBX, index: Register::R14, scale: 4, displ: 4, seg: Register::None },
    MemShape { name: "index*8+disp32", base: Register::None, index: Register::R15, scale: 8, displ: 4, seg: Register::None },
    MemShape { name: "rip_rel", base: Register::RIP, index: Register::None, scale: 1, displ: 4, seg: Register::None },
    MemShape { name: "abs_disp32", base: Register::None, index: Register::None, scale: 1, displ: 4, seg: Register::None },
    MemShape { name: "addr32_base+disp", base: Register::EBX, index: Register::None, scale: 1, displ: 1, seg: Register::None },
    MemShape { name: "addr32_base+index*2", base: Register::EBX, index: Register::R15D, scale: 2, displ: 1, seg: Register::None },
    MemShape { name: "fs_base", base: Register::RDI, index: Register::None, scale: 1, displ: 1, seg: Register::FS },
    MemShape { name: "gs_abs", base: Register::None, index: Register::None, scale: 1, displ: 4, seg: Register::GS },
];

const IMM_SPECIALS: [u64; 14] = [0, 1, 2, 7, 8, 0x1f, 0x20, 0x3f, 0x40, 0x7f, 0x80, 0xff, 0x7fff_ffff, 0xffff_ffff_ffff_ffff];

fn is_rm(k: K) -> Option<u32> {
    match k {
        K::r8_or_mem => Some(8),
        K::r16_or_mem => Some(16),
        K::r32_or_mem => Some(32),
        K::r64_or_mem => Some(64),
        K::xmm_or_mem => Some(128),
        _ => None,
    }
}

fn set_imm(ins: &mut Instruction, op: u32, k: K, v: u64) -> bool {
    match k {
        K::imm8 => {
            ins.set_op_kind(op, OpKind::Immediate8);
            ins.set_immediate8(v as u8);
        }
        K::imm8sex16 => {
            ins.set_op_kind(op, OpKind::Immediate8to16);
            ins.set_immediate8to16(v as i8 as i16);
        }
        K::imm8sex32 => {
            ins.set_op_kind(op, OpKind::Immediate8to32);
            ins.set_immediate8to32(v as i8 as i32);
        }
        K::imm8sex64 => {
            ins.set_op_kind(op, OpKind::Immediate8to64);
            ins.set_immediate8to64(v as i8 as i64);
        }
        K::imm8_const_1 => {
            ins.set_op_kind(op, OpKind::Immediate8);
            ins.set_immediate8(1);
        }
        K::imm16 => {
            ins.set_op_kind(op, OpKind::Immediate16);
            ins.set_immediate16(v as u16);
        }
        K::imm32 => {
            ins.set_op_kind(op, OpKind::Immediate32);
            ins.set_immediate32(v as u32);
        }
        K::imm32sex64 => {
            ins.set_op_kind(op, OpKind::Immediate32to64);
            ins.set_immediate32to64(v as i32 as i64);
        }
        K::imm64 => {
            ins.set_op_kind(op, OpKind::Immediate64);
            ins.set_immediate64(v);
        }
        _ => return false,
    }
    true
}

/// Build one instance of `code`. `rm_shape`: None = register form of the r/m operand, Some(i) = MEM_SHAPES[i].
/// `sel` picks registers / immediates. Returns the instruction with the memory operand's
/// displacement still 0 for shapes whose address is solved later.
fn build(code: Code, rm_shape: Option<usize>, sel: &mut Rng, imm_idx: usize) -> Option<(Instruction, bool)> {
    let oc = code.op_code();
    let mut ins = Instruction::default();
    ins.set_code(code);
    let mut has_mem = false;
    for op in 0..oc.op_count() {
        let k = oc.op_kind(op);
        let reg_from = |list: &[Register], sel: &mut Rng| *sel.pick(list);
        let mut set_mem = |ins: &mut Instruction, shape: usize| {
            let s = MEM_SHAPES[shape];
            ins.set_op_kind(op, OpKind::Memory);
            ins.set_memory_base(s.base);
            ins.set_memory_index(s.index);
            ins.set_memory_index_scale(s.scale);
            ins.set_memory_displ_size(if s.displ == 4 && s.base != Register::EBX { 8 } else { s.displ.max(if s.base == Register::RBP || s.base == Register::R13 { 1 } else { 0 }) });
            if s.seg != Register::None {
                ins.set_segment_prefix(s.seg);
            }
        };
        if let Some(bits) = is_rm(k) {
            match rm_shape {
                Some(sh) => {
                    set_mem(&mut ins, sh);
                    has_mem = true;
                }
                None => {
                    ins.set_op_kind(op, OpKind::Register);
                    let r = match bits {
                        8 => reg_from(&R8, sel),
                        16 => reg_from(&R16, sel),
                        32 => reg_from(&R32, sel),
                        64 => reg_from(&R64, sel),
                        _ => reg_from(&XMMS, sel),
                    };
                    ins.set_op_register(op, r);
                }
            }
            continue;
        }
        match k {
            K::mem => {
                set_mem(&mut ins, rm_shape.unwrap_or(0));
                has_mem = true;
            }
            K::mem_offs => {
                ins.set_op_kind(op, OpKind::Memory);
                ins.set_memory_base(Register::None);
                ins.set_memory_index(Register::None);
                ins.set_memory_displ_size(8);
                has_mem = true;
            }
            K::r8_reg | K::r8_opcode => {
                ins.set_op_kind(op, OpKind::Register);
                ins.set_op_register(op, reg_from(&R8, sel));
            }
            K::r16_reg | K::r16_opcode | K::r16_reg_mem | K::r16_rm => {
                ins.set_op_kind(op, OpKind::Register);
                ins.set_op_register(op, reg_from(&R16, sel));
            }
            K::r32_reg | K::r32_opcode | K::r32_reg_mem | K::r32_rm | K::r32_vvvv => {
                ins.set_op_kind(op, OpKind::Register);
                ins.set_op_register(op, reg_from(&R32, sel));
            }
            K::r64_reg | K::r64_opcode | K::r64_reg_mem | K::r64_rm | K::r64_vvvv => {
                ins.set_op_kind(op, OpKind::Register);
                ins.set_op_register(op, reg_from(&R64, sel));
            }
            K::xmm_reg | K::xmm_rm | K::xmm_vvvv => {
                ins.set_op_kind(op, OpKind::Register);
                ins.set_op_register(op, reg_from(&XMMS, sel));
            }
            K::al => {
                ins.set_op_kind(op, OpKind::Register);
                ins.set_op_register(op, Register::AL);
            }
            K::cl => {
                ins.set_op_kind(op, OpKind::Register);
                ins.set_op_register(op, Register::CL);
            }
            K::ax => {
                ins.set_op_kind(op, OpKind::Register);
                ins.set_op_register(op, Register::AX);
            }
            K::eax => {
                ins.set_op_kind(op, OpKind::Register);
                ins.set_op_register(op, Register::EAX);
            }
            K::rax => {
                ins.set_op_kind(op, OpKind::Register);
                ins.set_op_register(op, Register::RAX);
            }
            K::dx => {
                ins.set_op_kind(op, OpKind::Register);
                ins.set_op_register(op, Register::DX);
            }
            K::br64_1 | K::br64_4 => {
                ins.set_op_kind(op, OpKind::NearBranch64);
                ins.set_near_branch64(CODE + 0x40);
            }
            K::imm8 | K::imm8sex16 | K::imm8sex32 | K::imm8sex64 | K::imm8_const_1 | K::imm16 | K::imm32 | K::imm32sex64 | K::imm64 => {
                let v = if imm_idx < IMM_SPECIALS.len() { IMM_SPECIALS[imm_idx] } else { sel.next() };
                if !set_imm(&mut ins, op, k, v) {
                    return None;
                }
            }
            _ => return None,
        }
    }
    Some((ins, has_mem))
}

fn reg_index(r: Register) -> Option<usize> {
    let f = r.full_register();
    let n = format!("{f:?}");
    gpr_index(&n)
}

fn encode(ins: &Instruction) -> Option<Vec<u8>> {
    let mut e = Encoder::new(64);
    match e.encode(ins, CODE) {
        Ok(_) => Some(e.take_buffer()),
        Err(_) => None,
    }
}

/// does this code have an r/m (or mem-only) operand, i.e. do memory shapes apply?
fn mem_capable(code: Code) -> (bool, bool) {
    let oc = code.op_code();
    let mut rm = false;
    let mut only = false;
    for op in 0..oc.op_count() {
        let k = oc.op_kind(op);
        if is_rm(k).is_some() {
            rm = true;
        }
        if matches!(k, K::mem | K::mem_offs) {
            only = true;
        }
    }
    (rm, only)
}

// enumerated cells: (catalogue index, rm shape (None = register form), fault)
const C06_FAULTS: [&str; 6] = ["none", "unmapped_operand", "straddle_area_end", "perm_revoke_r", "perm_revoke_w", "misaligned_128"];

fn cells() -> &'static Vec<(usize, Option<usize>, usize)> {
    static C: OnceLock<Vec<(usize, Option<usize>, usize)>> = OnceLock::new();
    C.get_or_init(|| {
        let mut v = Vec::new();
        for (ci, (code, _)) in catalogue().iter().enumerate() {
            let (rm, only) = mem_capable(*code);
            if rm || !only {
                v.push((ci, None, 0));
            }
            if rm || only {
                let moffs = (0..code.op_code().op_count()).any(|op| code.op_code().op_kind(op) == K::mem_offs);
                let shapes: Vec<usize> = if moffs { vec![0] } else { (0..MEM_SHAPES.len()).collect() };
                for sh in shapes {
                    for f in 0..C06_FAULTS.len() {
                        v.push((ci, Some(sh), f));
                    }
                }
            }
        }
        v
    })
}

pub const SAMPLES_QUICK: u64 = 8;
pub const SAMPLES_THOROUGH: u64 = 64;

fn gen_state(r: &mut Rng) -> (Vec<u64>, u64, u64) {
    let mut gpr: Vec<u64> = (0..16).map(|_| r.interesting64()).collect();
    gpr[6] = STACK + STACK_LEN / 2; // RSP
    let flags = r.next() & 0x8d5;
    (gpr, flags, r.next())
}

/// choose the operand address for a fault kind; returns None if the kind does not apply
fn target_for(fault: &str, size: u64, r: &mut Rng) -> Option<u64> {
    let size = size.max(1);
    match fault {
        "none" | "perm_revoke_r" | "perm_revoke_w" => Some(DATA + (r.below(DATA_LEN - 64) & !15)),
        "unmapped_operand" => Some(UNMAPPED + (r.below(0x1000) & !15)),
        "straddle_area_end" => {
            if size < 2 {
                None
            } else {
                Some(DATA + DATA_LEN - size + 1 + r.below(size - 1))
            }
        }
        "misaligned_128" => {
            if size == 16 {
                Some(DATA + (r.below(DATA_LEN - 64) & !15) + 1 + r.below(15))
            } else {
                None
            }
        }
        _ => None,
    }
}

fn mem_size_of(ins: &Instruction) -> u64 {
    let ms: MemorySize = ins.memory_size();
    ms.size() as u64
}

/// solve registers / displacement so that the memory operand's effective address is `target`
fn solve(ins: &mut Instruction, shape: Option<usize>, gpr: &mut [u64], target: u64, r: &mut Rng, next_ip_guess: u64, fs: u64, gs: u64) -> bool {
    let moffs = ins.memory_base() == Register::None && ins.memory_index() == Register::None && ins.memory_displ_size() == 8 && shape.map(|s| MEM_SHAPES[s].name != "abs_disp32" && MEM_SHAPES[s].name != "gs_abs").unwrap_or(true);
    if moffs {
        ins.set_memory_displacement64(target);
        return true;
    }
    let s = match shape {
        Some(s) => MEM_SHAPES[s],
        None => return false,
    };
    let seg_base = match s.seg {
        Register::FS => fs,
        Register::GS => gs,
        _ => 0,
    };
    let t = target.wrapping_sub(seg_base);
    let _ = next_ip_guess;
    if s.base == Register::RIP {
        ins.set_memory_displacement64(t);
        return true;
    }
    if s.base == Register::None && s.index == Register::None {
        // absolute disp32 (sign-extended): only addresses below 2^31
        if t >= 0x8000_0000 {
            return false;
        }
        ins.set_memory_displacement64(t);
        return true;
    }
    let disp: i64 = match s.displ {
        0 => 0,
        1 => r.range(0, 254) as i64 - 127,
        _ => r.range(0, 0x2000) as i64 - 0x1000,
    };
    let mut rest = t.wrapping_sub(disp as u64);
    if s.index != Register::None {
        let ii = reg_index(s.index).unwrap();
        // with a base register to absorb the rest the index may be anything: small, negative (a loop index
        // counting down), or large enough for index * scale to wrap - the address is taken modulo 2^64
        let iv = if s.base != Register::None && s.base != Register::EBX && s.index.is_gpr64() {
            match r.below(4) {
                0 | 1 => r.below(0x40),
                2 => 0u64.wrapping_sub(r.range(1, 64)),
                _ => r.next(),
            }
        } else {
            r.below(0x40)
        };
        gpr[ii] = iv;
        rest = rest.wrapping_sub(iv.wrapping_mul(s.scale as u64));
    }
    if s.base != Register::None {
        let bi = reg_index(s.base).unwrap();
        if s.base == Register::EBX {
            if rest > u32::MAX as u64 {
                return false;
            }
            gpr[bi] = rest | (r.next() << 32); // upper half must be ignored with a 32-bit address size
        } else {
            gpr[bi] = rest;
        }
    } else {
        // index only: the displacement absorbs the rest (sign-extended 32 bit)
        let d = disp.wrapping_add(rest as i64);
        if d > i32::MAX as i64 || d < i32::MIN as i64 {
            return false;
        }
        ins.set_memory_displacement64(d as u64);
        return true;
    }
    ins.set_memory_displacement64(disp as u64);
    true
}

fn gen_insn(mode: &str, ci: usize, shape: Option<usize>, fault: &str, r: &mut Rng, k: u64) -> Option<Sc> {
    let (code, name) = &catalogue()[ci];
    let (mut gpr, flags, xmm_seed) = gen_state(r);
    let (mut ins, has_mem) = build(*code, shape, r, k as usize)?;
    let fs = FS_BASE;
    let gs = 0x2000;
    if matches!(code.mnemonic(), Mnemonic::Shl | Mnemonic::Shr) && (0..code.op_code().op_count()).any(|op| code.op_code().op_kind(op) == K::cl) {
        // counts 0, 1, ..., 0x20, 0x40 (zero after masking), 0xff: an enumerated axis like the immediates
        let c = IMM_SPECIALS[(k as usize) % 12] & 0xff;
        gpr[2] = (gpr[2] & !0xff) | c; // RCX is index 2 in GPR64 order
    }
    if has_mem {
        // the size is known only after a first encode/decode round trip: use a generous guess, then refine
        let probe = {
            let mut p = ins;
            solve(&mut p, shape, &mut gpr.clone(), DATA, r, CODE + 8, fs, gs);
            let b = encode(&p)?;
            let d = Decoder::with_ip(64, &b, CODE, DecoderOptions::NONE).decode();
            mem_size_of(&d)
        };
        let target = target_for(fault, probe, r)?;
        if !solve(&mut ins, shape, &mut gpr, target, r, CODE + 8, fs, gs) {
            return None;
        }
    } else if fault != "none" {
        return None;
    }
    // stack-pointer based shapes moved RSP into the data area: keep it there (explicit operand wins)
    let bytes = encode(&ins)?;
    // DIV/IDIV: the divide-error recipes are an enumerated axis (k), the oracle computes the verdict from the state anyway
    let mut poke: Vec<(u64, u64, u32)> = Vec::new();
    if matches!(ins.mnemonic(), Mnemonic::Div | Mnemonic::Idiv) && fault == "none" {
        let bits: u32 = match ins.code() {
            Code::Div_rm8 | Code::Idiv_rm8 => 8,
            Code::Div_rm16 | Code::Idiv_rm16 => 16,
            Code::Div_rm32 | Code::Idiv_rm32 => 32,
            _ => 64,
        };
        let mask: u64 = if bits == 64 { u64::MAX } else { (1u64 << bits) - 1 };
        // where the divisor lives
        let dec = Decoder::with_ip(64, &bytes, CODE, DecoderOptions::NONE).decode();
        let mem_addr: Option<u64> = if dec.op0_kind() == OpKind::Memory {
            let mut fac = InstructionInfoFactory::new();
            let info = fac.info(&dec);
            if dec.is_ip_rel_memory_operand() {
                Some(dec.memory_displacement64())
            } else {
                info.used_memory().first().and_then(|m| {
                    m.virtual_address(0, |r, _, _| match r {
                        Register::FS => Some(fs),
                        Register::GS => Some(gs),
                        Register::DS | Register::ES | Register::SS | Register::CS => Some(0),
                        _ => reg_index(r).map(|i| if r.size() == 4 { gpr[i] & 0xffff_ffff } else { gpr[i] }),
                    })
                })
            }
        } else {
            None
        };
        let mut set_divisor = |gpr: &mut Vec<u64>, poke: &mut Vec<(u64, u64, u32)>, v: u64| {
            if let Some(a) = mem_addr {
                poke.push((a, v & mask, bits / 8));
            } else if dec.op0_kind() == OpKind::Register {
                let r = dec.op0_register();
                if let Some(i) = reg_index(r) {
                    if matches!(r, Register::AH | Register::BH | Register::CH | Register::DH) {
                        gpr[i] = (gpr[i] & !0xff00) | ((v & 0xff) << 8);
                    } else {
                        gpr[i] = (gpr[i] & !mask) | (v & mask);
                    }
                }
            }
        };
        match k % 8 {
            0 => {
                // small dividend, divisor >= 1: completes (unless the divisor aliases the dividend)
                gpr[3] = 0;
                gpr[0] &= 0x7f;
                set_divisor(&mut gpr, &mut poke, 1 + (r.next() & 0x3f));
            }
            1 => {
                gpr[3] = 0;
                set_divisor(&mut gpr, &mut poke, (r.next() & mask) | 1);
            }
            2 => set_divisor(&mut gpr, &mut poke, 0), // divide by zero, high half arbitrary
            3 => {
                // divide by zero with a zero high half (a "fits in one word" fast path must still check)
                gpr[3] = 0;
                if bits == 8 {
                    gpr[0] &= !0xff00;
                }
                set_divisor(&mut gpr, &mut poke, 0);
            }
            4 => {
                // quotient does not fit: high half >= divisor
                let d = 1 + (r.next() & 0xff);
                set_divisor(&mut gpr, &mut poke, d);
                if bits == 8 {
                    gpr[0] = (gpr[0] & !0xffff) | 0xff00 | (r.next() & 0xff);
                } else {
                    gpr[3] = (gpr[3] & !mask) | ((d + r.below(3)) & mask).max(d & mask);
                }
            }
            5 => {
                // IDIV corner: (MIN of the operand width) / -1 ; for DIV: the largest fitting quotient
                if ins.mnemonic() == Mnemonic::Idiv {
                    set_divisor(&mut gpr, &mut poke, mask);
                    if bits == 8 {
                        gpr[0] = (gpr[0] & !0xffff) | 0xff80;
                    } else {
                        gpr[3] = (gpr[3] & !mask) | mask;
                        gpr[0] = (gpr[0] & !mask) | (1u64 << (bits - 1));
                    }
                } else {
                    set_divisor(&mut gpr, &mut poke, mask);
                    if bits == 8 {
                        gpr[0] = (gpr[0] & !0xffff) | 0xfe01;
                    } else {
                        gpr[3] = (gpr[3] & !mask) | (mask - 1);
                        gpr[0] = (gpr[0] & !mask) | 1;
                    }
                }
            }
            6 => {
                // IDIV corner: (MIN of the double-width dividend) / -1 ; for DIV: high half = divisor - 1 (largest that fits)
                if ins.mnemonic() == Mnemonic::Idiv {
                    set_divisor(&mut gpr, &mut poke, mask);
                    if bits == 8 {
                        gpr[0] = (gpr[0] & !0xffff) | 0x8000;
                    } else {
                        gpr[3] = (gpr[3] & !mask) | (1u64 << (bits - 1));
                        gpr[0] &= !mask;
                    }
                } else {
                    let d = 2 + (r.next() & 0x7f);
                    set_divisor(&mut gpr, &mut poke, d);
                    if bits == 8 {
                        gpr[0] = (gpr[0] & !0xffff) | ((d - 1) << 8) | (r.next() & 0xff);
                    } else {
                        gpr[3] = (gpr[3] & !mask) | (d - 1);
                    }
                }
            }
            _ => {}
        }
    }
    let (prot_data, prot_stack) = match fault {
        "perm_revoke_r" => (0, 3),
        "perm_revoke_w" => (1, 3),
        _ => (3, 3),
    };
    Some(Sc {
        mode: mode.to_string(),
        code_name: name.clone(),
        shape: shape.map(|s| MEM_SHAPES[s].name.to_string()).unwrap_or_else(|| "reg".into()),
        fault: fault.to_string(),
        bytes: to_hex(&bytes),
        gpr,
        xmm_seed,
        flags,
        fs,
        gs,
        data_seed: r.next() | 1,
        prot_data,
        prot_stack,
        // one sample in eight: code that may be executed but not read as data - fetching it is not reading it
        prot_code: if k % 8 == 6 { 4 } else { 5 },
        extra_steps: 0,
        flips: vec![],
        flip_at: 0,
        poke,
        no_pad: false,
        // an operand running past the end of its area: into nothing, into the stale tail of a shrunk
        // area, or into an inaccessible neighbour (an enumerated axis of the straddle cells)
        shrunk: (fault == "straddle_area_end" && k % 3 == 1) || (fault.starts_with("perm_revoke") && k % 2 == 1),
        neighbour: fault == "straddle_area_end" && k % 3 == 2,
        prelude_ret: k % 4 == 3,
        builtin: false,
        refetch_revoked: mode == "c06" && k % 8 == 2,
        empties: k % 5 == 4,
    })
}

fn trivial(mode: &str) -> Sc {
    Sc { mode: mode.into(), code_name: "Nopd".into(), shape: "reg".into(), fault: "none".into(), bytes: "90".into(), gpr: vec![0, 0, 0, 0, 0, 0, STACK + 0x800, 0, 0, 0, 0, 0, 0, 0, 0, 0], xmm_seed: 1, flags: 0, fs: 0, gs: 0, data_seed: 1, prot_data: 3, prot_stack: 3, prot_code: 5, extra_steps: 0, flips: vec![], flip_at: 0, poke: vec![], no_pad: false, shrunk: false, neighbour: false, prelude_ret: false, builtin: false, refetch_revoked: false, empties: false }
}

/// CPUID is the one implemented instruction whose behaviour is selected by a register *value* (the leaf in
/// EAX, the sub-leaf in ECX): the leaves are an enumerated axis of their own - every basic, hypervisor and
/// extended leaf number up to 0x20 in each range, the ends of the ranges, and four sub-leaves
fn cpuid_leaves() -> &'static Vec<(u64, u64)> {
    static C: OnceLock<Vec<(u64, u64)>> = OnceLock::new();
    C.get_or_init(|| {
        let mut v: Vec<(u64, u64)> = Vec::new();
        for base in [0u64, 0x4000_0000, 0x8000_0000, 0xC000_0000] {
            for k in 0..=0x20u64 {
                v.push((base + k, 0));
            }
            v.push((base + 0xff, 0));
            v.push((base + 0x0fff_ffff, 0));
        }
        for leaf in [4u64, 7, 0xb, 0xd, 0x8000_001d] {
            for sub in 1..4u64 {
                v.push((leaf, sub));
            }
        }
        v.push((0xffff_ffff, 0));
        v.push((0x7fff_ffff, 0xffff_ffff));
        v
    })
}

/// one CPUID instance with an enumerated leaf; the upper halves of RAX / RCX stay as sampled
fn gen_cpuid_leaf(mode: &str, li: usize, r: &mut Rng) -> Option<Sc> {
    let ci = catalogue().iter().position(|(c, _)| *c == Code::Cpuid)?;
    let mut sc = gen_insn(mode, ci, None, "none", r, 0)?;
    let (leaf, sub) = cpuid_leaves()[li % cpuid_leaves().len()];
    sc.gpr[0] = (sc.gpr[0] & !0xffff_ffff) | leaf; // RAX
    sc.gpr[2] = (sc.gpr[2] & !0xffff_ffff) | sub; // RCX
    sc.shape = format!("leaf_{leaf:x}_{sub:x}");
    Some(sc)
}

fn gen_c06(seed: u64, idx: u64, thorough: bool) -> Sc {
    let nl = cpuid_leaves().len() as u64;
    if idx < nl {
        let mut r = Rng::new(mix(seed, "C06cpuid", idx));
        return gen_cpuid_leaf("c06", idx as usize, &mut r).unwrap_or_else(|| trivial("c06"));
    }
    let idx = idx - nl;
    let samples = if thorough { SAMPLES_THOROUGH } else { SAMPLES_QUICK };
    let cs = cells();
    let cell = (idx / samples) as usize % cs.len();
    let k = idx % samples;
    let (ci, shape, f) = cs[cell];
    let mut r = Rng::new(mix(seed, "C06", idx));
    // DIV faults ride on the "none" cell of the register and memory forms: k selects the fault recipe
    gen_insn("c06", ci, shape, C06_FAULTS[f], &mut r, k).unwrap_or_else(|| {
        let mut t = trivial("c06");
        t.fault = "inapplicable".into();
        t
    })
}

// C09 instruction part: (catalogue index, area: 0 operand / 1 stack / 2 code, mask)
fn cells_c09() -> &'static Vec<(usize, usize, u32)> {
    static C: OnceLock<Vec<(usize, usize, u32)>> = OnceLock::new();
    C.get_or_init(|| {
        let mut v = Vec::new();
        for (ci, (code, _)) in catalogue().iter().enumerate() {
            let (rm, only) = mem_capable(*code);
            let stack = matches!(code.mnemonic(), Mnemonic::Push | Mnemonic::Pop | Mnemonic::Call | Mnemonic::Ret);
            for mask in 0..8u32 {
                if rm || only {
                    v.push((ci, 0, mask));
                }
                if stack {
                    v.push((ci, 1, mask));
                }
                if mask != 5 {
                    v.push((ci, 2, mask));
                }
            }
        }
        v
    })
}

fn gen_c09(seed: u64, idx: u64) -> Sc {
    let cs = cells_c09();
    let (ci, area, mask) = cs[(idx as usize) % cs.len()];
    let k = idx / cs.len() as u64;
    let mut r = Rng::new(mix(seed, "C09i", idx));
    let shape = if area == 0 { Some([0usize, 1, 2, 7, 9][(k % 5) as usize]) } else { None };
    let code = catalogue()[ci].0;
    let (rm, only) = mem_capable(code);
    let shape = if area != 0 && only && !rm { Some(0) } else { shape };
    match gen_insn("c09", ci, shape, "none", &mut r, if k % 2 == 0 { [0u64, 6, 8][(k as usize / 2) % 3] } else { 14 + k }) {
        Some(mut sc) => {
            match area {
                0 => sc.prot_data = mask,
                1 => sc.prot_stack = mask,
                _ => sc.prot_code = mask,
            }
            sc.fault = format!("mask_{}", ["operand", "stack", "code"][area]);
            sc
        }
        None => {
            let mut t = trivial("c09");
            t.fault = "inapplicable".into();
            t
        }
    }
}

const PREFIXES: [u8; 11] = [0x66, 0x67, 0xf2, 0xf3, 0x2e, 0x36, 0x3e, 0x26, 0x64, 0x65, 0xf0];

fn gen_c19(seed: u64, idx: u64, thorough: bool) -> Sc {
    let nl = cpuid_leaves().len() as u64;
    if idx < nl {
        let mut r = Rng::new(mix(seed, "C19cpuid", idx));
        if let Some(mut s) = gen_cpuid_leaf("c19", idx as usize, &mut r) {
            s.mode = "c19".into();
            return s;
        }
    }
    let mut r = Rng::new(mix(seed, "C19", idx));
    let (mut gpr, flags, xmm_seed) = gen_state(&mut r);
    // pointer registers aimed into the mapped areas so that memory operands usually resolve
    for g in gpr.iter_mut().enumerate() {
        if g.0 != 6 && r.chance(1, 2) {
            *g.1 = *r.pick(&[DATA, DATA + 0x800, DATA + DATA_LEN - 8, DATA + DATA_LEN, STACK + 0x100, CODE, 0, UNMAPPED]) + r.below(64);
        }
    }
    if r.chance(1, 8) {
        gpr[6] = r.interesting64();
    }
    let cat = catalogue();
    let which = r.below(10);
    let mut sc = trivial("c19");
    let bytes: Vec<u8> = match which {
        0 | 1 => {
            let n = r.range(1, 15) as usize;
            sc.code_name = "random_bytes".into();
            r.bytes(n)
        }
        2 | 3 | 4 => {
            // prefixes + optional REX + the opcode bytes of a catalogue form + random tail
            let (code, name) = r.pick(cat);
            sc.code_name = format!("structured:{name}");
            let mut b: Vec<u8> = Vec::new();
            let np = r.below(4);
            for _ in 0..np {
                b.push(*r.pick(&PREFIXES));
            }
            let mut sel = r.fork("sel");
            let base = build(*code, if r.chance(1, 2) { Some(r.usize(MEM_SHAPES.len())) } else { None }, &mut sel, r.usize(20)).and_then(|(i, _)| encode(&i));
            match base {
                Some(e) => {
                    let keep = r.range(1, e.len() as u64) as usize;
                    b.extend_from_slice(&e[..keep]);
                    let tail = r.below(8) as usize;
                    b.extend(r.bytes(tail));
                }
                None => b.extend(r.bytes(4)),
            }
            b.truncate(15);
            b
        }
        5 | 6 | 7 => {
            // valid encodings of catalogue forms in every shape the encoder can produce, exotic ones included
            let ci = r.usize(cat.len());
            let (rm, only) = mem_capable(cat[ci].0);
            let shape = if (rm || only) && r.chance(3, 4) { Some(r.usize(MEM_SHAPES.len())) } else { None };
            let k = r.below(24);
            match gen_insn("c19", ci, shape, *r.pick(&["none", "none", "unmapped_operand", "straddle_area_end"]), &mut r, k) {
                Some(s) => {
                    let mut s = s;
                    s.mode = "c19".into();
                    // keep the solved registers but randomise a few others
                    let mut s = Sc { prot_data: r.below(8) as u32, prot_stack: *r.pick(&[3u32, 3, 1, 0]), ..s };
                    s.shrunk = s.shrunk || r.chance(1, 4);
                    if r.chance(1, 3) {
                        s.no_pad = true;
                        let mut b = from_hex(&s.bytes);
                        if b.len() > 1 && r.chance(2, 3) {
                            let keep = r.range(1, b.len() as u64 - 1) as usize;
                            b.truncate(keep);
                            s.bytes = to_hex(&b);
                        }
                    }
                    return s;
                }
                None => vec![0x90],
            }
        }
        _ => {
            // an E2 program, run to a random point, bits flipped at or after RIP, then stepped on
            let e2 = crate::e2::generate("C19", thorough, seed, idx);
            sc.mode = "c19_midrun".into();
            sc.code_name = "e2_program".into();
            let code = from_hex(&e2.code);
            let n = 1 + r.below(3);
            sc.flip_at = r.below(40) as u32;
            sc.flips = (0..n).map(|_| (r.below(code.len() as u64), r.below(8) as u32)).collect();
            sc.extra_steps = 60;
            code
        }
    };
    // a third of the single-step runs: the executable area ends with the byte string, and valid
    // encodings are cut short, so the instruction is truncated by the end of the area
    let mut bytes = bytes;
    if sc.mode == "c19" && r.chance(1, 3) {
        sc.no_pad = true;
        if bytes.len() > 1 && r.chance(2, 3) {
            let keep = r.range(1, bytes.len() as u64 - 1) as usize;
            bytes.truncate(keep);
        }
    }
    sc.bytes = to_hex(&bytes);
    sc.gpr = gpr;
    sc.flags = flags;
    sc.xmm_seed = xmm_seed;
    sc.fs = *r.pick(&[0u64, FS_BASE, DATA, u64::MAX]);
    sc.gs = *r.pick(&[0u64, 0x2000, DATA]);
    sc.data_seed = r.next() | 1;
    sc.prot_data = if r.chance(2, 3) { 3 } else { r.below(8) as u32 };
    sc.prot_stack = if r.chance(3, 4) { 3 } else { r.below(8) as u32 };
    sc.prot_code = if r.chance(7, 8) { 5 } else { *r.pick(&[7u32, 4, 1, 0]) };
    // the data area was larger, was used, and was shrunk to its size just before the step: pointers just
    // behind its end then address memory that existed a moment ago
    sc.shrunk = sc.mode == "c19" && r.chance(1, 4);
    sc.prelude_ret = sc.mode == "c19" && r.chance(1, 6);
    sc.builtin = sc.mode == "c19" && r.chance(1, 5);
    if sc.builtin && r.chance(1, 2) {
        // a system call the built-in handlers know, with pointer-like arguments as drawn above
        sc.gpr[0] = *r.pick(&[12u64, 12, 22, 0, 1, 158, 60]);
        if r.chance(1, 2) {
            sc.bytes = "0f05".into();
            sc.code_name = "syscall_builtin".into();
        }
    }
    sc
}

// ------------------------------------------------------------------------------------------
// execution
// ------------------------------------------------------------------------------------------

struct Machine {
    ax: Axecutor,
}

fn setup(sc: &Sc, ctx: &mut Ctx, hooks: bool) -> Option<Machine> {
    setup_masked(sc, ctx, hooks, None, sc.xmm_seed)
}

/// `only`: write explicitly just these registers (GPR mask, XMM mask); every other register keeps
/// what the constructor drew from the RNG seam stream `rng_seed`
fn setup_masked(sc: &Sc, ctx: &mut Ctx, hooks: bool, only: Option<([bool; 16], [bool; 16])>, rng_seed: u64) -> Option<Machine> {
    install_ax_rng(rng_seed);
    let mut code = from_hex(&sc.bytes);
    let real_len = code.len();
    if !sc.no_pad || code.is_empty() {
        code.extend_from_slice(&[0x90; 24]);
    }
    let prelude_at = if sc.prelude_ret && !sc.no_pad {
        code.push(0xc3);
        Some(CODE + code.len() as u64 - 1)
    } else {
        None
    };
    let entry = if sc.mode == "c19_midrun" { CODE } else { CODE };
    let mut ax = match catch(|| Axecutor::new(&code, CODE, entry)) {
        Ok(Ok(a)) => a,
        _ => {
            ctx.harness_errors.push("cannot construct the E5 machine".into());
            return None;
        }
    };
    let _ = real_len;
    let r: Result<Result<(), String>, Panicked> = catch(|| {
        if sc.shrunk {
            // shrunk below, as the last thing that touches memory before the step
            ax.mem_init_area(DATA, Rng::new(sc.data_seed).bytes(DATA_LEN as usize + 0x200)).map_err(|e| e.to_string())?;
        } else if sc.data_seed % 4 == 3 {
            // a host-chosen name, long and not ASCII (error texts name the area an access failed in)
            let name = match (sc.data_seed >> 2) % 3 {
                0 => format!("{}€uro-zone", "x".repeat(31)),
                1 => format!("{}ключ{}", "n".repeat(63), "ß".repeat(40)),
                _ => "名".repeat(50),
            };
            ax.mem_init_area_named(DATA, Rng::new(sc.data_seed).bytes(DATA_LEN as usize), Some(name)).map_err(|e| e.to_string())?;
        } else {
            ax.mem_init_area(DATA, Rng::new(sc.data_seed).bytes(DATA_LEN as usize)).map_err(|e| e.to_string())?;
        }
        if sc.data_seed % 8 == 5 {
            ax.mem_init_area_named(STACK, Rng::new(sc.data_seed ^ 5).bytes(STACK_LEN as usize), Some(format!("{}名前", "s".repeat(30)))).map_err(|e| e.to_string())?;
        } else {
            ax.mem_init_area(STACK, Rng::new(sc.data_seed ^ 5).bytes(STACK_LEN as usize)).map_err(|e| e.to_string())?;
        }
        if let Some(at) = prelude_at {
            // RET (ax pops by RSP += 8, then reads) returning to the instruction under test with RSP as specified
            let g = sc.gpr.get(6).copied().unwrap_or(0);
            if g >= STACK + 8 && g <= STACK + STACK_LEN - 8 {
                let _ = ax.mem_write_64(g, CODE);
                let _ = ax.mem_write_64(g.wrapping_sub(8), CODE);
                let _ = ax.reg_write_64(SR::RSP, g.wrapping_sub(8));
                let _ = ax.reg_write_64(SR::RIP, at);
                let ok = matches!(do_step(&mut ax), StepOut::Ok(_)) && ax.reg_read_64(SR::RIP).ok() == Some(CODE);
                ctx.probe(if ok { "prelude_ret_executed" } else { "prelude_ret_failed" });
            } else {
                ctx.probe("prelude_ret_skipped_no_stack");
            }
            let _ = ax.reg_write_64(SR::RIP, CODE);
        }
        for (a, v, n) in sc.poke.iter() {
            let _ = ax.mem_write_bytes(*a, &v.to_le_bytes()[..(*n as usize).min(8)]);
        }
        for (i, v) in sc.gpr.iter().enumerate().take(16) {
            if only.map(|o| o.0[i]).unwrap_or(true) {
                ax.reg_write_64(GPR64[i], *v).map_err(|e| e.to_string())?;
            }
        }
        let mut xr = Rng::new(sc.xmm_seed);
        for (i, x) in XMM.iter().enumerate() {
            let v = ((xr.next() as u128) << 64) | xr.next() as u128;
            if only.map(|o| o.1[i]).unwrap_or(true) {
                ax.reg_write_128(*x, v).map_err(|e| e.to_string())?;
            }
        }
        ax.verif_set_rflags(sc.flags);
        ax.write_fs(sc.fs);
        ax.write_gs(sc.gs);
        if sc.builtin {
            use ax_x86::helpers::syscalls::Syscall;
            let _ = ax.mem_init_zero(0x1000, 0);
            ax.handle_syscalls(vec![Syscall::Brk, Syscall::Pipe, Syscall::ArchPrctl, Syscall::Exit]).map_err(|e| e.to_string())?;
        }
        if hooks {
            for m in [Mnemonic::Syscall, Mnemonic::Int, Mnemonic::Int3, Mnemonic::Int1] {
                if let Some(sm) = supported(m) {
                    ax.hook_before_mnemonic_native(sm, tramp_ref(0)).map_err(|e| e.to_string())?;
                }
            }
        }
        if sc.shrunk {
            // the host used the tail that is about to go away (whatever the machine remembers about
            // its last access is now stale), then gave it back
            let _ = ax.mem_read_bytes(DATA + DATA_LEN + 0x10, 8);
            let _ = ax.mem_write_bytes(DATA + DATA_LEN + 0x18, &[0xa5; 8]);
            // rights first, then the resize (as brk does to a heap the host protected): they must survive it
            ax.mem_prot(DATA, sc.prot_data & 7).map_err(|e| e.to_string())?;
            ax.mem_resize_section(DATA, DATA_LEN).map_err(|e| e.to_string())?;
        } else {
            ax.mem_prot(DATA, sc.prot_data & 7).map_err(|e| e.to_string())?;
        }
        if sc.neighbour {
            ax.mem_init_area(DATA + DATA_LEN, Rng::new(sc.data_seed ^ 9).bytes(0x100)).map_err(|e| e.to_string())?;
            ax.mem_prot(DATA + DATA_LEN, 0).map_err(|e| e.to_string())?;
            // the host (or brk) then tried to grow the data area into it: refused, and nothing may have moved
            if matches!(catch(|| ax.mem_resize_section(DATA, DATA_LEN + 0x80)), Ok(Ok(()))) {
                ctx.probe("grow_into_neighbour_accepted");
            }
        }
        ax.mem_prot(STACK, sc.prot_stack & 7).map_err(|e| e.to_string())?;
        ax.mem_prot(CODE, sc.prot_code & 7).map_err(|e| e.to_string())?;
        if sc.empties {
            let a = matches!(catch(|| ax.mem_init_zero(DATA + 8, 0)), Ok(Ok(())));
            let b = matches!(catch(|| ax.mem_init_area(STACK + 8, vec![])), Ok(Ok(())));
            if a || b {
                ctx.probe("empty_area_inside_operand_area");
            }
        }
        Ok(())
    });
    if !matches!(r, Ok(Ok(()))) {
        ctx.harness_errors.push(format!("E5 setup failed: {r:?}"));
        return None;
    }
    Some(Machine { ax })
}

/// The layout the host established through the API - extents and rights as *requested*, not as the
/// machine reports them: an operation that silently changed an area's rights or extent must not
/// change what the oracle expects of the step.
fn intended_layout(sc: &Sc) -> Vec<(u64, u64, u32)> {
    let mut code_len = from_hex(&sc.bytes).len() as u64;
    if !sc.no_pad || code_len == 0 {
        code_len += 24;
        if sc.prelude_ret && !sc.no_pad {
            code_len += 1;
        }
    }
    let mut v = vec![(DATA, DATA_LEN, sc.prot_data & 7), (STACK, STACK_LEN, sc.prot_stack & 7), (CODE, code_len, sc.prot_code & 7)];
    if sc.neighbour {
        v.push((DATA + DATA_LEN, 0x100, 0));
    }
    v
}

thread_local! {
    static LAYOUT: RefCell<Vec<(u64, u64, u32)>> = RefCell::new(Vec::new());
}

fn area_of(_ax: &Axecutor, addr: u64, size: u64) -> Option<(u64, u32)> {
    let end = addr as u128 + size as u128;
    LAYOUT.with(|l| {
        for (start, len, access) in l.borrow().iter() {
            if *len > 0 && *start <= addr && end <= *start as u128 + *len as u128 {
                return Some((*start, *access));
            }
        }
        None
    })
}

fn touches_any(_ax: &Axecutor, addr: u64, size: u64) -> bool {
    LAYOUT.with(|l| l.borrow().iter().any(|a| crate::e1::intersects(addr, size, a.0, a.1)))
}

fn reg_value(ax: &Axecutor, r: Register, fs: u64, gs: u64) -> Option<u64> {
    match r {
        Register::FS => return Some(fs),
        Register::GS => return Some(gs),
        Register::DS | Register::ES | Register::SS | Register::CS => return Some(0),
        Register::RIP | Register::EIP => return None,
        _ => {}
    }
    let full = r.full_register();
    let i = gpr_index(&format!("{full:?}"))?;
    let v = ax.reg_read_64(GPR64[i]).ok()?;
    Some(match r.size() {
        8 => v,
        4 => v & 0xffff_ffff,
        2 => v & 0xffff,
        _ => {
            if matches!(r, Register::AH | Register::BH | Register::CH | Register::DH) {
                (v >> 8) & 0xff
            } else {
                v & 0xff
            }
        }
    })
}

/// What a real CPU would do with this instruction in this state, as far as faults go.
/// Some(true) = faults, Some(false) = completes, None = no verdict (ambiguous / outside the model).
fn cpu_faults(ax: &Axecutor, ins: &Instruction, sc: &Sc, ctx: &mut Ctx) -> (Option<bool>, String) {
    LAYOUT.with(|l| *l.borrow_mut() = intended_layout(sc));
    {
        // reach: how often the machine's own view of the layout differs from what the host asked for
        let mut actual: Vec<(u64, u64, u32)> = ax.verif_area_extents().iter().map(|a| (a.0, a.1, a.2)).collect();
        let mut want = intended_layout(sc);
        actual.sort();
        want.sort();
        if actual != want {
            ctx.probe("machine_layout_differs_from_requested");
        }
    }
    let mut fac = InstructionInfoFactory::new();
    let info = fac.info(ins);
    let mut verdict: Option<bool> = Some(false);
    let mut why = String::from("none");
    let stack_insn = matches!(ins.mnemonic(), Mnemonic::Push | Mnemonic::Pop | Mnemonic::Call | Mnemonic::Ret);
    for m in info.used_memory() {
        let size = m.memory_size().size() as u64;
        let implicit_stack = stack_insn && m.base().full_register() == Register::RSP && m.segment() == Register::SS && !(ins.op_count() > 0 && ins.op_kind(0) == OpKind::Memory && ins.memory_base().full_register() == Register::RSP && m.displacement() == ins.memory_displacement64());
        let (need_r, need_w, touches) = match m.access() {
            OpAccess::Read => (true, false, true),
            OpAccess::Write => (false, true, true),
            OpAccess::ReadWrite => (true, true, true),
            OpAccess::ReadCondWrite => (true, false, true),
            OpAccess::CondRead | OpAccess::CondWrite => {
                verdict = None;
                continue;
            }
            _ => (false, false, false),
        };
        if !touches {
            continue;
        }
        let need = (need_r as u32) | ((need_w as u32) << 1);
        if implicit_stack {
            // judged on the whole window so that the verdict does not depend on the slot convention
            let rsp = ax.reg_read_64(SR::RSP).unwrap_or(0);
            let lo = rsp.wrapping_sub(8);
            match (rsp >= 8).then(|| area_of(ax, lo, 24)).flatten() {
                Some((_, acc)) => {
                    if acc & need != need {
                        verdict = verdict.map(|_| true);
                        why = "stack_permission".into();
                    }
                }
                None => {
                    if !touches_any(ax, lo, 24) && rsp >= 8 && rsp < u64::MAX - 16 {
                        verdict = verdict.map(|_| true);
                        why = "stack_unmapped".into();
                    } else {
                        verdict = None;
                    }
                }
            }
            continue;
        }
        let addr = if ins.is_ip_rel_memory_operand() {
            Some(ins.memory_displacement64().wrapping_add(match ins.segment_prefix() {
                Register::FS => sc.fs,
                Register::GS => sc.gs,
                _ => 0,
            }))
        } else {
            m.virtual_address(0, |r, _, _| reg_value(ax, r, sc.fs, sc.gs))
        };
        let addr = match addr {
            Some(a) => a,
            None => {
                verdict = None;
                continue;
            }
        };
        match area_of(ax, addr, size) {
            Some((_, acc)) => {
                if acc & need != need {
                    verdict = verdict.map(|_| true);
                    why = if need_w && acc & 2 == 0 { "write_denied".into() } else { "read_denied".into() };
                } else if need == 2 && acc & 1 == 0 {
                    // a pure store into an area that is writable but not readable: completes
                    why = "write_only_store".into();
                } else if ins.code() == Code::Xorps_xmm_xmmm128 && addr % 16 != 0 {
                    verdict = verdict.map(|_| true);
                    why = "misaligned_128".into();
                }
            }
            None => {
                verdict = verdict.map(|_| true);
                why = if touches_any(ax, addr, size) { "straddle".into() } else { "unmapped".into() };
            }
        }
    }
    // divide errors, computed with 128-bit arithmetic from the actual state
    if matches!(ins.mnemonic(), Mnemonic::Div | Mnemonic::Idiv) && verdict == Some(false) {
        let bits: u32 = match ins.code() {
            Code::Div_rm8 | Code::Idiv_rm8 => 8,
            Code::Div_rm16 | Code::Idiv_rm16 => 16,
            Code::Div_rm32 | Code::Idiv_rm32 => 32,
            _ => 64,
        };
        let divisor: Option<u64> = if ins.op0_kind() == OpKind::Register {
            reg_value(ax, ins.op0_register(), sc.fs, sc.gs)
        } else {
            let a = if ins.is_ip_rel_memory_operand() { Some(ins.memory_displacement64()) } else { info.used_memory().first().and_then(|m| m.virtual_address(0, |r, _, _| reg_value(ax, r, sc.fs, sc.gs))) };
            a.and_then(|a| {
                let n = (bits / 8) as u64;
                area_of(ax, a, n).and_then(|(s, _)| ax.verif_area_data(s).map(|d| {
                    let o = (a - s) as usize;
                    let mut v = 0u64;
                    for k in 0..n as usize {
                        v |= (d[o + k] as u64) << (8 * k);
                    }
                    v
                }))
            })
        };
        let rax = ax.reg_read_64(SR::RAX).unwrap_or(0);
        let rdx = ax.reg_read_64(SR::RDX).unwrap_or(0);
        if let Some(d) = divisor {
            let mask: u128 = if bits == 64 { u64::MAX as u128 } else { (1u128 << bits) - 1 };
            let dividend: u128 = if bits == 8 { (rax & 0xffff) as u128 } else { (((rdx as u128) & mask) << bits) | (rax as u128 & mask) };
            let d = d as u128 & mask;
            if d == 0 {
                verdict = Some(true);
                why = "div_zero".into();
                ctx.fault("div_zero");
            } else if ins.mnemonic() == Mnemonic::Div {
                if dividend / d > mask {
                    verdict = Some(true);
                    why = "div_quotient_overflow".into();
                    ctx.fault("div_quotient_overflow");
                }
            } else {
                // signed: sign-extend dividend (2*bits) and divisor (bits)
                let w = 2 * bits;
                let sx = |v: u128, b: u32| -> i128 {
                    if b >= 128 {
                        v as i128
                    } else if v >> (b - 1) & 1 == 1 {
                        (v | (!0u128 << b)) as i128
                    } else {
                        v as i128
                    }
                };
                let n = sx(dividend, w);
                let dv = sx(d, bits);
                let q = n.checked_div(dv);
                let (lo, hi) = (-(1i128 << (bits - 1)), (1i128 << (bits - 1)) - 1);
                match q {
                    Some(q) if q >= lo && q <= hi => {}
                    _ => {
                        verdict = Some(true);
                        why = "div_quotient_overflow".into();
                        ctx.fault("div_quotient_overflow");
                    }
                }
            }
        } else {
            verdict = None;
        }
    }
    (verdict, why)
}

fn run_insn(sc: &Sc, ctx: &mut Ctx) {
    if sc.fault == "inapplicable" {
        ctx.event("cell:inapplicable", "");
        return;
    }
    set_dispatch(Some(Box::new(|_id, _ax, _m| Ok(HookResult::Unhandled))));
    let m = setup(sc, ctx, true);
    let mut m = match m {
        Some(m) => m,
        None => {
            set_dispatch(None);
            return;
        }
    };
    let bytes = from_hex(&sc.bytes);
    let ins = Decoder::with_ip(64, &bytes, CODE, DecoderOptions::NONE).decode();
    ctx.nontrivial = true;
    match sc.fault.as_str() {
        "none" => {}
        f => ctx.fault(f),
    }
    let (mut verdict, mut why) = cpu_faults(&m.ax, &ins, sc, ctx);
    // instruction fetch needs execute permission and only that
    if sc.prot_code & 4 == 0 {
        verdict = Some(true);
        why = "fetch_denied".into();
    }
    let before: Vec<(u64, u64, u32, u64)> = observe(&m.ax).areas;
    let out = do_step(&mut m.ax);
    ctx.guest_steps += 1;
    let oc = match &out {
        StepOut::Ok(_) => "ok".to_string(),
        StepOut::Err(_) => "err".to_string(),
        StepOut::Panic(p) => format!("panic:{}", p.class()),
    };
    let mn = format!("{:?}", ins.mnemonic());
    ctx.event(&format!("{}:{}:{}:{why}:{oc}", sc.code_name, sc.shape, sc.fault), "");
    let prop = if sc.mode == "c09" { "C09" } else { "C06" };
    // C09 only speaks about permissions: other fault reasons are C06's
    let relevant = if prop == "C09" { matches!(why.as_str(), "none" | "read_denied" | "write_denied" | "write_only_store" | "fetch_denied" | "stack_permission") } else { true };
    match &out {
        StepOut::Panic(p) => {
            if prop == "C09" {
                ctx.probe("excluded_crashing_forms");
            } else {
                // call-site granularity, and the form is part of the signature, so a new crashing form is not
                // masked (memory operands under the 0x67 prefix used to share one signature while every one of
                // them died in mem_addr; since the repair of that they are judged per form like the others)
                let which = sc.code_name.clone();
                ctx.dev("C06", format!("C06|crash_site|{}|{which}", p.class()), format!("{} [{}] {} ({}) fault={} panicked: {} at {}", sc.code_name, sc.shape, ins, sc.bytes, sc.fault, p.msg, p.loc));
            }
        }
        _ => {
            let ok = matches!(out, StepOut::Ok(_));
            // An instruction whose operand is architecturally read (CMOVcc source) or written (SETcc, RMW with a
            // zero count) completes on memory that forbids it only if the check was skipped together with the
            // access; that is judged here as strictly as a performed access (the known CMOVcc / SETB defects are
            // listed under C09 as well as under C06).
            let relevant = relevant;
            if let (Some(f), true) = (verdict, relevant) {
                if f == ok {
                    let cls = if prop == "C09" {
                        format!("C09|insn|{why}|want={}|got={oc}|{mn}", if f { "err" } else { "ok" })
                    } else {
                        format!("C06|{why}|want={}|got={oc}|{mn}", if f { "err" } else { "ok" })
                    };
                    ctx.dev(prop, cls, format!("{} [{}] {} ({}): a CPU {} ({why}); step returned {out:?}", sc.code_name, sc.shape, ins, sc.bytes, if f { "faults" } else { "completes" }).chars().take(600).collect());
                }
            }
            if verdict == Some(true) && relevant && !ok {
                // a refused access leaves memory unchanged
                let after = observe(&m.ax).areas;
                if after != before {
                    ctx.dev(prop, format!("{prop}|{}|failed_access_changed_memory|{mn}", if prop == "C09" { "insn" } else { "fault" }), format!("{} [{}]: the step failed ({why}) but memory changed", sc.code_name, sc.shape));
                }
            }
        }
    }
    if sc.refetch_revoked && sc.prot_code & 4 != 0 && !matches!(out, StepOut::Panic(_)) {
        // the same address again, after the right to execute it was taken away
        ctx.fault("exec_revoked_after_first_execution");
        let _ = m.ax.mem_prot(CODE, sc.prot_code & 3);
        let _ = m.ax.reg_write_64(SR::RIP, CODE);
        if m.ax.verif_finished() {
            ctx.probe("refetch_skipped_machine_finished");
        } else {
            let before2 = observe(&m.ax).areas;
            let out2 = do_step(&mut m.ax);
            ctx.guest_steps += 1;
            match &out2 {
                StepOut::Err(_) => {
                    if observe(&m.ax).areas != before2 {
                        ctx.dev("C06", format!("C06|fetch_revoked|failed_access_changed_memory|{mn}"), "the refused step changed memory".into());
                    }
                }
                StepOut::Ok(_) => ctx.dev("C06", format!("C06|fetch_revoked|want=err|got=ok|{mn}"), format!("{} ({}) ran again at {CODE:#x} after PROT_EXEC had been revoked from the code area", ins, sc.bytes)),
                StepOut::Panic(p) => ctx.dev("C06", format!("C06|fetch_revoked|panic:{}|{mn}", p.class()), format!("{} at {}", p.msg, p.loc)),
            }
        }
    }
    ctx.log_u64(observe(&m.ax).digest());
    set_dispatch(None);
}

fn run_c19(sc: &Sc, ctx: &mut Ctx) {
    let mut m = match setup(sc, ctx, false) {
        Some(m) => m,
        None => return,
    };
    ctx.nontrivial = true;
    if sc.builtin {
        ctx.fault("builtin_syscall_handlers_installed");
    }
    let bytes = from_hex(&sc.bytes);
    let midrun = sc.mode == "c19_midrun";
    let total = if midrun { sc.flip_at + sc.extra_steps } else { 1 + sc.extra_steps };
    for stepno in 0..total {
        if midrun && stepno == sc.flip_at {
            // the host makes the code writable, flips bits, restores R+X
            let _ = m.ax.mem_prot(CODE, 3);
            for (off, bit) in sc.flips.iter() {
                if let Ok(b) = m.ax.mem_read_bytes(CODE + off, 1) {
                    let _ = m.ax.mem_write_bytes(CODE + off, &[b[0] ^ (1 << bit)]);
                }
            }
            let _ = m.ax.mem_prot(CODE, sc.prot_code & 7);
            ctx.fault("code_bitflip_midrun");
        }
        let rip = m.ax.reg_read_64(SR::RIP).unwrap_or(0);
        // what is about to run, decoded by the harness
        let ins = m.ax.verif_area_data(CODE).and_then(|d| {
            if rip >= CODE && ((rip - CODE) as usize) < d.len() {
                let o = (rip - CODE) as usize;
                let e = (o + 15).min(d.len());
                let mut dec = Decoder::with_ip(64, &d[o..e], rip, DecoderOptions::NONE);
                if dec.can_decode() {
                    Some(dec.decode())
                } else {
                    None
                }
            } else {
                None
            }
        });
        let out = do_step(&mut m.ax);
        ctx.guest_steps += 1;
        let mn = ins.map(|i| if i.is_invalid() { "invalid".to_string() } else { format!("{:?}", i.mnemonic()) }).unwrap_or_else(|| "nofetch".into());
        let oc = match &out {
            StepOut::Ok(_) => "ok",
            StepOut::Err(_) => "err",
            StepOut::Panic(_) => "panic",
        };
        if stepno == 0 || midrun {
            ctx.event(&format!("{}:{mn}:{oc}", if midrun { "midrun" } else { "step" }), "");
        }
        match &out {
            StepOut::Panic(p) => {
                ctx.dev("C19", format!("C19|crash_site|{}", p.class()), format!("step on {} ({mn}; {}) panicked: {} at {}", if midrun { "a corrupted program".to_string() } else { sc.bytes.clone() }, ins.map(|i| format!("{i}")).unwrap_or_default(), p.msg, p.loc));
                return;
            }
            StepOut::Ok(_) => {
                if let Some(i) = ins {
                    if rip >= CODE && sc.prot_code & 4 != 0 && (i.is_invalid() || supported(i.mnemonic()).is_none()) {
                        ctx.dev("C19", format!("C19|unsupported_accepted|{mn}"), format!("the step succeeded on bytes that are undecodable or not supported: {}", to_hex(&bytes[..bytes.len().min(15)])));
                    }
                }
                if m.ax.verif_finished() {
                    break;
                }
            }
            StepOut::Err(_) => {
                if !midrun {
                    break;
                }
            }
        }
    }
    ctx.log_u64(observe(&m.ax).digest());
}

/// C20, instruction part: the same instruction on two machines that differ only in what the
/// constructor left in the registers the instruction does not mention.
fn run_c20(sc: &Sc, ctx: &mut Ctx) {
    if sc.fault == "inapplicable" {
        ctx.event("cell:inapplicable", "");
        return;
    }
    let bytes = from_hex(&sc.bytes);
    let ins = Decoder::with_ip(64, &bytes, CODE, DecoderOptions::NONE).decode();
    let mut fac = InstructionInfoFactory::new();
    let info = fac.info(&ins);
    let mut g = [false; 16];
    let mut x = [false; 16];
    let mut mark = |r: Register| {
        if r == Register::None {
            return;
        }
        if r.is_xmm() {
            x[r.number() % 16] = true;
        } else if let Some(i) = reg_index(r) {
            g[i] = true;
        }
    };
    // registers the instruction only *writes*, in full (a 64-bit or zero-extending 32-bit GPR, an XMM register), are
    // left as the constructor made them - different on the two machines - and must agree afterwards: an output
    // the instruction forgets to write would otherwise hide behind the harness's own explicit write
    let mut wo_g = [false; 16];
    let mut wo_x = [false; 16];
    for u in info.used_registers() {
        let r = u.register();
        if u.access() == iced_x86::OpAccess::Write && (r.is_gpr64() || r.is_gpr32() || r.is_xmm()) {
            if r.is_xmm() {
                wo_x[r.number() % 16] = true;
            } else if let Some(i) = reg_index(r) {
                wo_g[i] = true;
            }
        }
    }
    for u in info.used_registers() {
        let r = u.register();
        let pure_full_write = u.access() == iced_x86::OpAccess::Write && (r.is_gpr64() || r.is_gpr32() || r.is_xmm());
        if !pure_full_write {
            mark(r);
        }
    }
    for m in info.used_memory() {
        mark(m.base());
        mark(m.index());
    }
    let _ = OpKind::Register;
    g[6] = true; // RSP: the harness always sets up a stack
    if matches!(ins.mnemonic(), Mnemonic::Syscall | Mnemonic::Int | Mnemonic::Int1 | Mnemonic::Int3) {
        // what a trap leaves in registers is the business of the hook that handles it (the CPU's own RCX / R11
        // clobber of SYSCALL is not modelled by ax and not demanded by any property claimed here)
        wo_g = [false; 16];
    }
    for i in 0..16 {
        if g[i] {
            wo_g[i] = false;
        }
        if x[i] {
            wo_x[i] = false;
        }
    }
    ctx.nontrivial = true;
    set_dispatch(Some(Box::new(|_id, _ax, _m| Ok(HookResult::Unhandled))));
    let mut res: Vec<(String, Obs, Obs)> = Vec::new();
    for seed in [sc.xmm_seed ^ 0x1111, sc.xmm_seed ^ 0x2222_2222] {
        let mut m = match setup_masked(sc, ctx, true, Some((g, x)), seed) {
            Some(m) => m,
            None => {
                set_dispatch(None);
                return;
            }
        };
        let init = observe(&m.ax);
        let out = do_step(&mut m.ax);
        ctx.guest_steps += 1;
        let oc = match &out {
            StepOut::Ok(b) => format!("ok:{b}"),
            StepOut::Err(e) => format!("err:{e}"),
            StepOut::Panic(p) => format!("panic:{}", p.class()),
        };
        res.push((oc, init, observe(&m.ax)));
    }
    set_dispatch(None);
    ctx.fault("rng_stream_varied");
    let mn = format!("{:?}", ins.mnemonic());
    ctx.event(&format!("c20:{}:{}:{}", sc.code_name, sc.shape, if res[0].0.starts_with("ok") { "ok" } else if res[0].0.starts_with("err") { "err" } else { "panic" }), "");
    let (a, b) = (&res[0], &res[1]);
    if a.0.starts_with("panic") || b.0.starts_with("panic") {
        return; // crash sites are C06 / C19 findings
    }
    if a.0 != b.0 {
        ctx.dev("C20", format!("C20|insn|result_or_error_text|{mn}"), format!("{} [{}] {}: results differ between two machines that differ only in unwritten registers:\n--- {}\n+++ {}", sc.code_name, sc.shape, ins, a.0, b.0).chars().take(900).collect());
        return;
    }
    let (oa, ob) = (&a.2, &b.2);
    for i in 0..16 {
        if g[i] {
            if oa.gpr[i] != ob.gpr[i] {
                ctx.dev("C20", format!("C20|insn|reg|{mn}"), format!("{} [{}] {}: {} differs after the step ({:#x} vs {:#x})", sc.code_name, sc.shape, ins, GPR64_NAMES[i], oa.gpr[i], ob.gpr[i]));
                return;
            }
        } else if wo_g[i] {
            ctx.probe("c20_write_only_output_left_unwritten");
            if oa.gpr[i] != ob.gpr[i] {
                ctx.dev("C20", format!("C20|insn|stale_output|reg|{mn}"), format!("{} [{}] {}: {} is an output of the instruction, yet its value after the step depends on what the constructor left in it ({:#x} vs {:#x})", sc.code_name, sc.shape, ins, GPR64_NAMES[i], oa.gpr[i], ob.gpr[i]));
                return;
            }
        } else {
            for (o, init) in [(oa, &a.1), (ob, &b.1)] {
                if o.gpr[i] != init.gpr[i] {
                    ctx.dev("C20", format!("C20|insn|stray_write|reg|{mn}"), format!("{} [{}] {}: {} is not mentioned by the instruction but changed", sc.code_name, sc.shape, ins, GPR64_NAMES[i]));
                    return;
                }
            }
        }
    }
    for i in 0..16 {
        if x[i] {
            if oa.xmm[i] != ob.xmm[i] {
                ctx.dev("C20", format!("C20|insn|xmm|{mn}"), format!("{} [{}] {}: XMM{i} differs after the step", sc.code_name, sc.shape, ins));
                return;
            }
        } else if wo_x[i] {
            ctx.probe("c20_write_only_output_left_unwritten");
            if oa.xmm[i] != ob.xmm[i] {
                ctx.dev("C20", format!("C20|insn|stale_output|xmm|{mn}"), format!("{} [{}] {}: XMM{i} is an output of the instruction, yet its value after the step depends on what the constructor left in it", sc.code_name, sc.shape, ins));
                return;
            }
        } else {
            for (o, init) in [(oa, &a.1), (ob, &b.1)] {
                if o.xmm[i] != init.xmm[i] {
                    ctx.dev("C20", format!("C20|insn|stray_write|xmm|{mn}"), format!("{} [{}] {}: XMM{i} is not mentioned by the instruction but changed", sc.code_name, sc.shape, ins));
                    return;
                }
            }
        }
    }
    let comp = if oa.rip != ob.rip {
        Some("rip")
    } else if oa.rflags != ob.rflags {
        Some("flags")
    } else if oa.areas != ob.areas {
        Some("mem")
    } else if oa.executed != ob.executed || oa.finished != ob.finished {
        Some("count")
    } else if oa.trace != ob.trace || oa.call_stack != ob.call_stack {
        Some("trace")
    } else {
        None
    };
    if let Some(c) = comp {
        ctx.dev("C20", format!("C20|insn|{c}|{mn}"), format!("{} [{}] {}: {c} differs between two machines that differ only in unwritten registers", sc.code_name, sc.shape, ins));
    }
    ctx.log_u64(oa.digest());
}

fn cells_c20() -> &'static Vec<(usize, Option<usize>)> {
    static C: OnceLock<Vec<(usize, Option<usize>)>> = OnceLock::new();
    C.get_or_init(|| {
        let mut v: Vec<(usize, Option<usize>)> = Vec::new();
        for (ci, sh, f) in cells().iter() {
            if *f == 0 {
                v.push((*ci, *sh));
            }
        }
        v
    })
}

fn gen_c20(seed: u64, idx: u64) -> Sc {
    let nl = cpuid_leaves().len() as u64;
    if idx < nl {
        let mut r = Rng::new(mix(seed, "C20cpuid", idx));
        return gen_cpuid_leaf("c20", idx as usize, &mut r).unwrap_or_else(|| trivial("c20"));
    }
    let idx = idx - nl;
    let cs = cells_c20();
    let (ci, shape) = cs[(idx as usize) % cs.len()];
    let k = idx / cs.len() as u64;
    let mut r = Rng::new(mix(seed, "C20i", idx));
    match gen_insn("c20", ci, shape, "none", &mut r, k) {
        Some(sc) => sc,
        None => {
            let mut t = trivial("c20");
            t.fault = "inapplicable".into();
            t
        }
    }
}

pub fn run(_prop: &str, sc: &Sc, ctx: &mut Ctx) {
    if sc.mode == "c20" {
        return run_c20(sc, ctx);
    }
    ctx.probes.entry("excluded_crashing_forms".to_string()).or_insert(0);
    ctx.probes.entry("access_not_performed".to_string()).or_insert(0);
    match sc.mode.as_str() {
        "c19" | "c19_midrun" => run_c19(sc, ctx),
        _ => run_insn(sc, ctx),
    }
}

impl Engine for E5Engine {
    fn name(&self) -> &'static str {
        "E5 insn-sim"
    }
    fn runs(&self, prop: &str, thorough: bool) -> u64 {
        match prop {
            "C06" => cpuid_leaves().len() as u64 + cells().len() as u64 * if thorough { SAMPLES_THOROUGH } else { SAMPLES_QUICK },
            "C09" => cells_c09().len() as u64 * if thorough { 40 } else { 5 },
            "C20" => cpuid_leaves().len() as u64 + cells_c20().len() as u64 * if thorough { 64 } else { 8 },
            _ => {
                if thorough {
                    20_000_000
                } else {
                    1_200_000
                }
            }
        }
    }
    fn gen(&self, prop: &str, thorough: bool, seed: u64, idx: u64) -> Value {
        let sc = match prop {
            "C06" => gen_c06(seed, idx, thorough),
            "C09" => gen_c09(seed, idx),
            "C20" => gen_c20(seed, idx),
            _ => gen_c19(seed, idx, thorough),
        };
        serde_json::to_value(sc).unwrap()
    }
    fn exec(&self, prop: &str, sc: &Value, ctx: &mut Ctx) {
        match serde_json::from_value::<Sc>(sc.clone()) {
            Ok(s) => run(prop, &s, ctx),
            Err(e) => ctx.harness_errors.push(format!("bad E5 scenario: {e}")),
        }
    }
    fn shrink(&self, _prop: &str, sc: &Value) -> Vec<Value> {
        let s: Sc = match serde_json::from_value(sc.clone()) {
            Ok(s) => s,
            Err(_) => return vec![],
        };
        let mut out: Vec<Sc> = Vec::new();
        if s.mode == "c19" || s.mode == "c19_midrun" {
            let b = from_hex(&s.bytes);
            if s.mode == "c19" {
                for k in (1..b.len()).rev() {
                    let mut c = s.clone();
                    c.bytes = to_hex(&b[..k]);
                    out.push(c);
                }
            }
            for i in 0..s.flips.len() {
                let mut c = s.clone();
                c.flips.remove(i);
                out.push(c);
            }
            if s.extra_steps > 0 {
                let mut c = s.clone();
                c.extra_steps /= 2;
                out.push(c);
            }
        }
        for i in 0..16 {
            if i != 6 && s.gpr[i] != 0 {
                let mut c = s.clone();
                c.gpr[i] = 0;
                out.push(c);
            }
        }
        if s.flags != 0 {
            let mut c = s.clone();
            c.flags = 0;
            out.push(c);
        }
        for (f, v) in [("prot_data", 3u32), ("prot_stack", 3), ("prot_code", 5)] {
            let mut c = s.clone();
            let changed = match f {
                "prot_data" => std::mem::replace(&mut c.prot_data, v) != v,
                "prot_stack" => std::mem::replace(&mut c.prot_stack, v) != v,
                _ => std::mem::replace(&mut c.prot_code, v) != v,
            };
            if changed {
                out.push(c);
            }
        }
        out.into_iter().map(|x| serde_json::to_value(x).unwrap()).collect()
    }
    fn crash_context(&self, _prop: &str, sc: &Value) -> String {
        format!("insn|{}", sc["mode"].as_str().unwrap_or("?"))
    }
    fn components(&self) -> (Vec<&'static str>, Vec<&'static str>) {
        (
            vec!["iced decoder as used by ax", "step(): fetch, dispatch and every instr_* of the 315-form catalogue", "operand.rs (operand and address resolution)", "memory.rs bounds and permission checks", "registers.rs"],
            vec!["thread_rng (seeded RNG seam)", "fatal_error!/opcode_unimplemented! in wasm32 mode", "no-op hooks for SYSCALL/INT/INT1/INT3 so that those forms complete", "async executor (one poll)"],
        )
    }
    fn rule(&self, prop: &str) -> String {
        match prop {
            "C06" => format!("enumerated in every run independent of the seed: {} cells = catalogue form (315 implemented Codes, frozen in data/implemented_codes.txt; forms without a 64-bit encoding are counted as inapplicable) x operand shape (register form; 16 memory shapes incl. RSP/RBP/R12/R13 bases, all scales, RIP-relative, absolute, moffs, 32-bit address size, FS/GS) x fault kind (none, unmapped operand, operand straddling the area end, read permission revoked, write permission revoked, misaligned 128-bit operand); per cell {SAMPLES_QUICK} (quick) / {SAMPLES_THOROUGH} (thorough) samples whose immediates walk a boundary list before random values; divide errors are decided per sample with 128-bit arithmetic on the actual state; oracle: step returns Err iff a CPU faults (operand access facts from iced, fault injected by construction); distinct = distinct (form, shape, fault, reason, outcome)", cells().len()),
            "C20" => format!("instruction part: {} cells = catalogue form x operand shape, 8 (quick) / 64 (thorough) samples each; only the registers the instruction mentions (iced used_registers/used_memory) are written explicitly, every other GPR/XMM keeps what the constructor drew from two different RNG-seam streams; result, error text, mentioned registers, flags, memory must agree and unmentioned registers must keep their own initial value", cells_c20().len()),
            "C09" => format!("instruction part: {} cells = catalogue form x area (operand / stack / code) x all 8 permission masks, mem_prot applied right before the step", cells_c09().len()),
            _ => "sampled: uniform byte strings of length 1-15; prefix/REX/opcode-structured strings built from catalogue encodings with random tails; valid encodings of every catalogue form in every shape the encoder can produce (32-bit address size, RIP-relative, moffs, AH-DH, special bases, segment overrides, shift-by-1 in the imm8 encoding); E2 programs run to a random point, 1-3 bits of the code flipped through mem_prot+mem_write_bytes, then stepped on; states with boundary-biased registers, pointer registers aimed into small areas under random masks, random flags, segment bases; oracle: step returns Ok or Err under catch_unwind in a supervised worker process - no panic, abort, hang; undecodable/unsupported bytes must give Err; distinct = distinct (generator, mnemonic, outcome) sequence".into(),
        }
    }
    fn assumptions(&self, prop: &str) -> Vec<String> {
        match prop {
            "C19" => vec!["built-in handlers are not installed: the property quantifies over code, registers, flags and memory only".into()],
            _ => vec![
                "which operands an instruction reads and writes is taken from iced's InstructionInfoFactory, not from ax".into(),
                "implicit stack accesses are judged on the window [RSP-8, RSP+16) so that the verdict does not depend on the push/pop slot convention".into(),
                "of the implemented forms only XORPS xmm, m128 checks alignment".into(),
            ],
        }
    }
    fn level(&self, prop: &str) -> &'static str {
        if prop == "C19" {
            "exploration"
        } else {
            "fault_enumeration"
        }
    }
}
