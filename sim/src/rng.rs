//! Seeded PRNG owned by the harness: SplitMix64 -> xoshiro256**. No dependency on `rand`.
//! One integer (VERIF_SEED) decides every choice; sub-streams are forked by label so that
//! adding a draw in one place never shifts another.

#[derive(Clone, Debug)]
pub struct Rng {
    s: [u64; 4],
}

pub fn splitmix(x: &mut u64) -> u64 {
    *x = x.wrapping_add(0x9E37_79B9_7F4A_7C15);
    let mut z = *x;
    z = (z ^ (z >> 30)).wrapping_mul(0xBF58_476D_1CE4_E5B9);
    z = (z ^ (z >> 27)).wrapping_mul(0x94D0_49BB_1331_11EB);
    z ^ (z >> 31)
}

pub fn fnv1a(bytes: &[u8]) -> u64 {
    let mut h: u64 = 0xcbf2_9ce4_8422_2325;
    for b in bytes {
        h ^= *b as u64;
        h = h.wrapping_mul(0x0000_0100_0000_01B3);
    }
    h
}

/// Seed of run `idx` of property `prop` under VERIF_SEED `seed`.
pub fn mix(seed: u64, prop: &str, idx: u64) -> u64 {
    let mut x = seed ^ fnv1a(prop.as_bytes()).rotate_left(17) ^ idx.wrapping_mul(0xD6E8_FEB8_6659_FD93);
    let a = splitmix(&mut x);
    let b = splitmix(&mut x);
    a ^ b.rotate_left(29)
}

impl Rng {
    pub fn new(seed: u64) -> Rng {
        let mut x = seed;
        let s = [splitmix(&mut x), splitmix(&mut x), splitmix(&mut x), splitmix(&mut x)];
        Rng { s }
    }

    /// Independent sub-stream named `label` (does not advance `self`).
    pub fn fork(&self, label: &str) -> Rng {
        Rng::new(self.s[0] ^ self.s[2].rotate_left(13) ^ fnv1a(label.as_bytes()))
    }

    pub fn next(&mut self) -> u64 {
        let r = self.s[1].wrapping_mul(5).rotate_left(7).wrapping_mul(9);
        let t = self.s[1] << 17;
        self.s[2] ^= self.s[0];
        self.s[3] ^= self.s[1];
        self.s[1] ^= self.s[2];
        self.s[0] ^= self.s[3];
        self.s[2] ^= t;
        self.s[3] = self.s[3].rotate_left(45);
        r
    }

    /// uniform in [0, n) ; n = 0 gives 0
    pub fn below(&mut self, n: u64) -> u64 {
        if n == 0 {
            0
        } else {
            self.next() % n
        }
    }

    /// uniform in [lo, hi] inclusive
    pub fn range(&mut self, lo: u64, hi: u64) -> u64 {
        if hi <= lo {
            lo
        } else if hi - lo == u64::MAX {
            self.next()
        } else {
            lo + self.below(hi - lo + 1)
        }
    }

    pub fn usize(&mut self, n: usize) -> usize {
        self.below(n as u64) as usize
    }

    /// true with probability num/den
    pub fn chance(&mut self, num: u64, den: u64) -> bool {
        self.below(den) < num
    }

    pub fn pick<'a, T>(&mut self, xs: &'a [T]) -> &'a T {
        &xs[self.usize(xs.len())]
    }

    /// index drawn according to integer weights
    pub fn weighted(&mut self, w: &[u32]) -> usize {
        let total: u64 = w.iter().map(|x| *x as u64).sum();
        if total == 0 {
            return 0;
        }
        let mut r = self.below(total);
        for (i, x) in w.iter().enumerate() {
            if r < *x as u64 {
                return i;
            }
            r -= *x as u64;
        }
        w.len() - 1
    }

    /// boundary-biased 64-bit value
    pub fn interesting64(&mut self) -> u64 {
        match self.below(12) {
            0 => 0,
            1 => 1,
            2 => u64::MAX,
            3 => 0x7fff_ffff_ffff_ffff,
            4 => 0x8000_0000_0000_0000,
            5 => 0xffff_ffff,
            6 => 0x8000_0000,
            7 => 0x7fff_ffff,
            8 => self.below(256),
            9 => self.next() & 0xffff_ffff,
            _ => self.next(),
        }
    }

    pub fn bytes(&mut self, n: usize) -> Vec<u8> {
        let mut v = Vec::with_capacity(n);
        while v.len() < n {
            let x = self.next().to_le_bytes();
            let take = (n - v.len()).min(8);
            v.extend_from_slice(&x[..take]);
        }
        v
    }

    pub fn shuffle<T>(&mut self, xs: &mut [T]) {
        for i in (1..xs.len()).rev() {
            let j = self.usize(i + 1);
            xs.swap(i, j);
        }
    }
}
