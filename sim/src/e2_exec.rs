//! E2 execution: machine construction, the three drivers (step / execute / execute bursts),
//! the simulated host (scripted hooks), and the oracles of C11, C12, C18, C20.

use std::cell::RefCell;
use std::collections::BTreeMap;
use std::rc::Rc;

use ax_x86::axecutor::Axecutor;
use ax_x86::helpers::syscalls::Syscall;
use ax_x86::state::hooks::HookResult;
use ax_x86::state::registers::SupportedRegister;
use iced_x86::{Decoder, DecoderOptions, FlowControl, Instruction, Mnemonic};

use super::{HookSpec, Sc};
use crate::common::*;
use crate::hooks::{set_dispatch, supported_by_name, tramp_ref, MAX_HOOKS};
use crate::rng::fnv1a;

#[derive(Debug, Clone, PartialEq, Eq)]
pub struct HookEv {
    pub hook: usize,
    pub before: bool,
    pub mn_ok: bool,
    pub rip: u64,
    pub count: u64,
    pub digest: u64,
    pub finished: bool,
    pub answer: String,
    pub reg_inside: Option<bool>,
}

#[derive(Clone)]
pub struct Mask {
    pub gpr: [bool; 16],
    pub xmm: [bool; 16],
}

pub struct Host {
    pub specs: Vec<HookSpec>,
    pub inv: Vec<usize>,
    pub log: Vec<HookEv>,
    pub mask: Mask,
    pub scratch: u64,
    pub mutate_counter: u64,
    pub last_mutate: Option<u64>,
    pub inside_added: Vec<usize>,
    /// handle_syscalls() called from inside a hook was (wrongly) accepted
    pub inside_builtin: bool,
    pub code_start: u64,
    /// offsets (into the code) of 32-bit immediates that hooks may rewrite
    pub patch_slots: Vec<u64>,
    pub patch_counter: u64,
}

/// What hooks (and the host) can see of the machine, minus the places only hooks write to.
pub fn digest(ax: &Axecutor, mask: &Mask, scratch: u64) -> u64 {
    digest_ex(ax, mask, scratch, 0)
}

/// like `digest`, additionally leaving out the area that starts at `code` (hooks may patch code bytes)
pub fn digest_ex(ax: &Axecutor, mask: &Mask, scratch: u64, code: u64) -> u64 {
    let mut h = 0xcbf2_9ce4_8422_2325u64;
    for (i, r) in GPR64.iter().enumerate() {
        if mask.gpr[i] && i != 15 {
            h = mix_hash(h, &ax.reg_read_64(*r).unwrap_or(0).to_le_bytes());
        }
    }
    for (i, r) in XMM.iter().enumerate() {
        if mask.xmm[i] {
            h = mix_hash(h, &ax.reg_read_128(*r).unwrap_or(0).to_le_bytes());
        }
    }
    h = mix_hash(h, &ax.verif_rflags().to_le_bytes());
    let mut ext = ax.verif_area_extents();
    ext.sort();
    for (start, len, access, _) in ext {
        if (scratch != 0 && start == scratch) || (code != 0 && start == code) {
            continue;
        }
        h = mix_hash(h, &start.to_le_bytes());
        h = mix_hash(h, &len.to_le_bytes());
        h = mix_hash(h, &access.to_le_bytes());
        h = mix_hash(h, &fnv1a(ax.verif_area_data(start).unwrap_or(&[])).to_le_bytes());
    }
    h
}

#[derive(Debug, Clone, PartialEq, Eq)]
pub enum End {
    Finished,
    Limit,
    ErrBudget,
    StepCap,
    Panic(String),
    Construct(String),
}

impl End {
    fn class(&self) -> &'static str {
        match self {
            End::Finished => "finished",
            End::Limit => "limit",
            End::ErrBudget => "errors",
            End::StepCap => "step_cap",
            End::Panic(_) => "panic",
            End::Construct(_) => "construct",
        }
    }
}

pub struct Rec {
    pub end: End,
    pub errors: Vec<String>,
    pub obs: Option<Obs>,
    pub hook_log: Vec<HookEv>,
    pub step_digests: Vec<u64>,
    pub initial: Option<Obs>,
    pub steps: u64,
    pub renders: Vec<String>,
    /// the run executed an instruction that reads a register nobody wrote explicitly (e.g. after
    /// jumping into the middle of an instruction): its outcome legitimately depends on constructor randomness
    pub reads_unwritten: bool,
}

#[derive(Clone, Copy, PartialEq, Eq, Debug)]
enum HookId {
    Ours(usize),
    BuiltinExit,
}

#[derive(Default)]
struct Registry {
    before: BTreeMap<String, Vec<HookId>>,
    after: BTreeMap<String, Vec<HookId>>,
}

struct Machine {
    ax: Axecutor,
    host: Rc<RefCell<Host>>,
    reg: Registry,
    model_inv: Vec<usize>,
    rsp0: Option<u64>,
    code_end: u64,
    builtin_registered: bool,
    late_next: usize,
    real_limit: Option<u64>,
    stack_start: Option<u64>,
    /// the host called stop() between two steps
    host_stopped: bool,
    /// copies of the machine the host took mid-run and set aside (kept alive until the run ends)
    clones: Vec<Axecutor>,
}

fn install_dispatch(host: &Rc<RefCell<Host>>) {
    let host = host.clone();
    set_dispatch(Some(Box::new(move |id, ax, m| {
        let mut h = host.borrow_mut();
        if id >= h.specs.len() {
            return Ok(HookResult::Unhandled);
        }
        let spec = h.specs[id].clone();
        let k = h.inv[id];
        h.inv[id] += 1;
        let ans = spec.script.get(k).cloned().unwrap_or_else(|| "U".to_string());
        let mut ev = HookEv {
            hook: id,
            before: spec.phase == "before",
            mn_ok: format!("{m:?}") == spec.mnemonic,
            rip: ax.reg_read_64(SupportedRegister::RIP).unwrap_or(0),
            count: ax.verif_executed(),
            digest: digest_ex(ax, &h.mask, h.scratch, if h.patch_slots.is_empty() { 0 } else { h.code_start }),
            finished: ax.verif_finished(),
            answer: ans.clone(),
            reg_inside: None,
        };
        let mut result: Result<HookResult, Box<dyn std::error::Error>> = Ok(HookResult::Unhandled);
        match ans.as_str() {
            "H" => result = Ok(HookResult::Handled),
            "S" => ax.stop(),
            "E" => result = Err(format!("scripted hook failure of hook {id}").into()),
            "M" => {
                h.mutate_counter += 1;
                let v = 0xC0DE_0000_0000u64 + h.mutate_counter;
                let _ = ax.reg_write_64(SupportedRegister::R15, v);
                if h.scratch != 0 {
                    let _ = ax.mem_write_64(h.scratch, v);
                }
                h.last_mutate = Some(v);
            }
            "R" => {
                let new_id = h.specs.len();
                if new_id < MAX_HOOKS {
                    if let Some((_, sm)) = supported_by_name("Nop") {
                        let r = ax.hook_before_mnemonic_native(sm, tramp_ref(new_id));
                        let ok = r.is_ok();
                        if ok {
                            h.specs.push(HookSpec { phase: "before".into(), mnemonic: "Nop".into(), script: vec![] });
                            h.inv.push(0);
                            h.inside_added.push(new_id);
                        }
                        ev.reg_inside = Some(ok);
                    }
                }
            }
            "SE" => {
                ax.stop();
                result = Err(format!("scripted hook failure (after stop) of hook {id}").into());
            }
            "MS" => {
                h.mutate_counter += 1;
                let v = 0xC0DE_0000_0000u64 + h.mutate_counter;
                let _ = ax.reg_write_64(SupportedRegister::R15, v);
                if h.scratch != 0 {
                    let _ = ax.mem_write_64(h.scratch, v);
                }
                h.last_mutate = Some(v);
                ax.stop();
            }
            "P" => {
                // self-modifying code through the host: rewrite a 32-bit immediate of an instruction of the program
                if !h.patch_slots.is_empty() {
                    h.patch_counter += 1;
                    let slot = h.patch_slots[(h.patch_counter as usize) % h.patch_slots.len()];
                    let v = (0x1000 + h.patch_counter * 0x101) & 0x7fff_ffff;
                    let cs = h.code_start;
                    let _ = ax.mem_prot(cs, 7);
                    let _ = ax.mem_write_32(cs + slot, v);
                    let _ = ax.mem_prot(cs, 5);
                }
            }
            "RS" => {
                // the built-in handlers are hooks too: registering them from inside a hook must be refused
                let r = ax.handle_syscalls(vec![Syscall::Exit]);
                let ok = r.is_ok();
                if ok {
                    h.inside_builtin = true;
                }
                ev.reg_inside = Some(ok);
            }
            _ => {}
        }
        h.log.push(ev);
        result
    })));
}

impl Machine {
    /// register a hook from outside any hook; returns whether ax accepted it
    fn register(&mut self, spec: &HookSpec) -> Option<bool> {
        let id = self.host.borrow().specs.len();
        if id >= MAX_HOOKS {
            return None;
        }
        let (_, sm) = supported_by_name(&spec.mnemonic)?;
        let r = if spec.phase == "before" {
            catch(|| self.ax.hook_before_mnemonic_native(sm, tramp_ref(id)))
        } else {
            catch(|| self.ax.hook_after_mnemonic_native(sm, tramp_ref(id)))
        };
        let ok = matches!(r, Ok(Ok(())));
        if ok {
            {
                let mut h = self.host.borrow_mut();
                h.specs.push(spec.clone());
                h.inv.push(0);
            }
            self.model_inv.push(0);
            let list = if spec.phase == "before" { &mut self.reg.before } else { &mut self.reg.after };
            list.entry(spec.mnemonic.clone()).or_default().push(HookId::Ours(id));
        }
        Some(ok)
    }

    fn handle_syscalls(&mut self) -> bool {
        let r = catch(|| self.ax.handle_syscalls(vec![Syscall::Exit]));
        let ok = matches!(r, Ok(Ok(())));
        if ok && !self.builtin_registered {
            self.builtin_registered = true;
            self.reg.before.entry("Syscall".into()).or_default().push(HookId::BuiltinExit);
        }
        ok
    }
}

fn build(sc: &Sc, rng_seed: u64, set_limit: bool) -> Result<Machine, String> {
    install_ax_rng(rng_seed);
    let code = from_hex(&sc.code);
    let made = if sc.symbols.is_empty() {
        catch(|| Axecutor::new(&code, sc.code_start, sc.entry))
    } else {
        // the same program as a static ELF image whose symbol table names (several times over) addresses inside the code
        let image = crate::e2::image_for(sc);
        catch(|| Axecutor::from_binary(&image))
    };
    let ax = match made {
        Ok(Ok(a)) => a,
        Ok(Err(e)) => return Err(format!("new: {e}")),
        Err(p) => return Err(format!("new panicked: {}", p.msg)),
    };
    let mut mask = Mask { gpr: [false; 16], xmm: [false; 16] };
    for (n, _) in sc.regs.iter() {
        if let Some(i) = gpr_index(n) {
            mask.gpr[i] = true;
        }
    }
    if sc.stack_len.is_some() {
        mask.gpr[6] = true;
    }
    for (i, _) in sc.xregs.iter() {
        if (*i as usize) < 16 {
            mask.xmm[*i as usize] = true;
        }
    }
    let host = Rc::new(RefCell::new(Host {
        specs: Vec::new(),
        inv: Vec::new(),
        log: Vec::new(),
        mask,
        scratch: sc.scratch,
        mutate_counter: 0,
        last_mutate: None,
        inside_added: Vec::new(),
        inside_builtin: false,
        code_start: sc.code_start,
        patch_slots: sc.patch_slots.clone(),
        patch_counter: 0,
    }));
    let mut m = Machine {
        code_end: if sc.symbols.is_empty() { sc.code_start + code.len() as u64 } else { 0 },
        ax,
        host,
        reg: Registry::default(),
        model_inv: Vec::new(),
        rsp0: None,
        builtin_registered: false,
        late_next: 0,
        real_limit: sc.limit,
        stack_start: None,
        host_stopped: false,
        clones: Vec::new(),
    };
    let r: Result<Result<(), String>, Panicked> = catch(|| {
        if let Some(len) = sc.stack_len {
            m.stack_start = Some(m.ax.init_stack(len).map_err(|e| format!("init_stack: {e}"))?);
            m.rsp0 = Some(m.ax.reg_read_64(SupportedRegister::RSP).map_err(|e| e.to_string())?);
        }
        for d in sc.data.iter() {
            m.ax.mem_init_zero(d.start, d.len).map_err(|e| format!("data area: {e}"))?;
            if d.prot != 3 {
                m.ax.mem_prot(d.start, d.prot).map_err(|e| e.to_string())?;
            }
        }
        if sc.scratch != 0 {
            m.ax.mem_init_zero(sc.scratch, 16).map_err(|e| format!("scratch area: {e}"))?;
        }
        for (n, v) in sc.regs.iter() {
            if let Some(i) = gpr_index(n) {
                m.ax.reg_write_64(GPR64[i], *v).map_err(|e| e.to_string())?;
            }
        }
        for (i, hx) in sc.xregs.iter() {
            let v = u128::from_str_radix(hx, 16).unwrap_or(0);
            if (*i as usize) < 16 {
                m.ax.reg_write_128(XMM[*i as usize], v).map_err(|e| e.to_string())?;
            }
        }
        m.ax.verif_set_rflags(sc.flags);
        if set_limit {
            if let Some(l) = sc.limit {
                m.ax.set_max_instructions(l);
            }
        }
        Ok(())
    });
    match r {
        Ok(Ok(())) => {}
        Ok(Err(e)) => return Err(e),
        Err(p) => return Err(format!("setup panicked: {}", p.msg)),
    }
    if sc.builtin_exit && !m.handle_syscalls() {
        return Err("handle_syscalls failed on a fresh machine".into());
    }
    for h in sc.hooks.iter() {
        match m.register(h) {
            Some(true) | None => {}
            Some(false) => return Err("hook registration failed on a fresh machine".into()),
        }
    }
    Ok(m)
}

fn fetch(ax: &Axecutor, rip: u64) -> Option<Instruction> {
    for (start, len, access, dl) in ax.verif_area_extents() {
        if start <= rip && rip < start.wrapping_add(len) {
            if access & 4 == 0 {
                return None;
            }
            let data = ax.verif_area_data(start)?;
            let off = (rip - start) as usize;
            if off >= dl {
                return None;
            }
            let end = (off + 15).min(dl);
            let mut dec = Decoder::with_ip(64, &data[off..end], rip, DecoderOptions::NONE);
            if !dec.can_decode() {
                return None;
            }
            let ins = dec.decode();
            if ins.is_invalid() {
                return None;
            }
            return Some(ins);
        }
    }
    None
}

fn is_trap(m: Mnemonic) -> bool {
    matches!(m, Mnemonic::Syscall | Mnemonic::Int | Mnemonic::Int3 | Mnemonic::Int1)
}

struct Tracer {
    entries: Vec<(u64, u64, u8, i16, u64)>,
    stack: Vec<u64>,
}

fn apply_actions(sc: &Sc, m: &mut Machine, done: &mut Vec<bool>, ctx: &mut Ctx, oracles: bool) {
    let count = m.ax.verif_executed();
    for (i, a) in sc.actions.iter().enumerate() {
        if done[i] || a.at > count {
            continue;
        }
        done[i] = true;
        match a.kind.as_str() {
            "register" => {
                if let Some(h) = a.hook.as_ref() {
                    let running = m.ax.verif_hooks_running();
                    let r = m.register(h);
                    ctx.event("host:register", &format!("{r:?}"));
                    if oracles && r == Some(false) {
                        ctx.dev("C12", "C12|register_outside_hook|rejected".into(), format!("hook registration between steps was refused at count {count} (stale running flag: {running})"));
                    }
                }
            }
            "handle_syscalls" => {
                let ok = m.handle_syscalls();
                ctx.event("host:handle_syscalls", &format!("{ok}"));
                if oracles && !ok {
                    ctx.dev("C12", "C12|handle_syscalls_outside_hook|rejected".into(), format!("handle_syscalls between steps was refused at count {count}"));
                }
            }
            "render" => {
                render_check(&mut m.ax, ctx, "boundary", oracles);
            }
            "resize_code" => {
                // the host grows the code area: the end of the *initial* code stays where execution finishes
                let len = from_hex(&sc.code).len() as u64;
                let r = catch(|| m.ax.mem_resize_section(sc.code_start, len + a.area));
                ctx.event("host:resize_code", &format!("{:?}", matches!(r, Ok(Ok(())))));
                if matches!(r, Ok(Ok(()))) {
                    ctx.fault("code_area_resized");
                }
            }
            "stop" => {
                // the host stops the machine between two steps: the run is over, no later instruction executes
                let r = catch(|| m.ax.stop());
                ctx.event("host:stop", &format!("{}", r.is_ok()));
                if r.is_ok() {
                    m.host_stopped = true;
                    ctx.fault("host_stop_between_steps");
                }
            }
            "clone_register" => {
                // the host takes a copy of the machine, registers hooks on the *copy* (for every mnemonic the
                // original has hooks for, and the one named by the action) and sets the copy aside. None of
                // those hooks was registered on the machine under test: none may ever run there
                if let Ok(mut c) = catch(|| m.ax.clone()) {
                    let mut names: Vec<String> = m.reg.before.keys().chain(m.reg.after.keys()).cloned().collect();
                    if let Some(h) = a.hook.as_ref() {
                        names.push(h.mnemonic.clone());
                    }
                    names.sort();
                    names.dedup();
                    let mut n = 0;
                    for nm in names {
                        if let Some((_, sm)) = supported_by_name(&nm) {
                            if matches!(catch(|| c.hook_before_mnemonic_native(sm, crate::hooks::foreign_ref())), Ok(Ok(()))) {
                                n += 1;
                            }
                            if matches!(catch(|| c.hook_after_mnemonic_native(sm, crate::hooks::foreign_ref())), Ok(Ok(()))) {
                                n += 1;
                            }
                        }
                    }
                    ctx.event("host:clone_register", &format!("{n}"));
                    ctx.fault("machine_cloned_midrun");
                    m.clones.push(c);
                }
            }
            "prot" => {
                let target = if a.area == 1 { m.stack_start.unwrap_or(0) } else { a.area };
                let r = catch(|| m.ax.mem_prot(target, a.prot));
                if matches!(r, Ok(Ok(()))) {
                    ctx.fault("perm_revoke_midrun");
                }
                ctx.event("host:prot", &format!("{}", a.prot));
            }
            _ => {}
        }
    }
}

/// Call the three renderers; they must return and must not change the machine.
/// every number a line of rendered text mentions, whatever its notation (0x.., ..h, decimal)
fn numbers_in(line: &str) -> Vec<u64> {
    let mut out = Vec::new();
    for tok in line.split(|c: char| !c.is_ascii_alphanumeric()) {
        if tok.is_empty() {
            continue;
        }
        let t = tok.to_ascii_lowercase();
        if let Some(h) = t.strip_prefix("0x") {
            if let Ok(v) = u64::from_str_radix(h, 16) {
                out.push(v);
            }
        }
        if let Some(h) = t.strip_suffix('h') {
            if let Ok(v) = u64::from_str_radix(h, 16) {
                out.push(v);
            }
        }
        if let Ok(v) = t.parse::<u64>() {
            out.push(v);
        }
    }
    out
}

/// trace() is what a user reads: it must say what the recorded entries say - one line per entry, in
/// order, naming the entry's source and target address and, for a collapsed repetition, its count.
/// Notation and decoration are free.
fn trace_text_mismatch(ax: &Axecutor, text: &str) -> Option<String> {
    let entries = ax.verif_trace();
    let lines: Vec<&str> = text.lines().filter(|l| !l.trim().is_empty()).collect();
    if lines.len() != entries.len() {
        return Some(format!("{} lines for {} recorded entries", lines.len(), entries.len()));
    }
    for (k, (e, l)) in entries.iter().zip(lines.iter()).enumerate() {
        let nums = numbers_in(l);
        if !nums.contains(&e.target) {
            return Some(format!("line {k} {l:?} does not name target {:#x}", e.target));
        }
        if e.instr_ip != 0 && !nums.contains(&e.instr_ip) {
            return Some(format!("line {k} {l:?} does not name source {:#x}", e.instr_ip));
        }
        if e.count > 1 && !nums.contains(&(e.count as u64)) {
            return Some(format!("line {k} {l:?} does not carry count {}", e.count));
        }
    }
    None
}

fn call_stack_text_mismatch(ax: &Axecutor, text: &str) -> Option<String> {
    let cs = ax.verif_call_stack();
    let lines: Vec<&str> = text.lines().filter(|l| !l.trim().is_empty()).collect();
    if lines.len() < cs.len() {
        return Some(format!("{} lines for {} frames", lines.len(), cs.len()));
    }
    for (k, addr) in cs.iter().enumerate() {
        if !numbers_in(lines[k]).contains(addr) {
            return Some(format!("line {k} {:?} does not name frame {addr:#x}", lines[k]));
        }
    }
    None
}

pub fn render_check(ax: &mut Axecutor, ctx: &mut Ctx, context: &str, report: bool) -> bool {
    let before = observe(ax).digest();
    let mut any_panic = false;
    let neg = ax.verif_trace().iter().any(|t| t.level < 0);
    let lvl = if neg { "negative_level" } else { "nonnegative_level" };
    match catch(|| ax.trace()) {
        Ok(Ok(text)) => {
            if report {
                if let Some(why) = trace_text_mismatch(ax, &text) {
                    ctx.dev("C18", "C18|render_text|trace_differs_from_recorded_trace".into(), format!("trace() text does not say what the recorded entries say ({context}): {why}"));
                }
            }
        }
        Ok(Err(_)) => {}
        Err(p) => {
            any_panic = true;
            if report {
                ctx.dev("C18", format!("C18|render_panic:trace|{lvl}|{}", p.class()), format!("trace() panicked ({context}): {} at {}", p.msg, p.loc));
            }
        }
    }
    match catch(|| ax.call_stack()) {
        Ok(Ok(text)) => {
            if report {
                if let Some(why) = call_stack_text_mismatch(ax, &text) {
                    ctx.dev("C18", "C18|render_text|call_stack_differs_from_recorded_stack".into(), format!("call_stack() text does not say what the recorded frames say ({context}): {why}"));
                }
            }
        }
        Ok(Err(_)) => {}
        Err(p) => {
            any_panic = true;
            if report {
                ctx.dev("C18", format!("C18|render_panic:call_stack|{}", p.class()), format!("call_stack() panicked ({context}): {} at {}", p.msg, p.loc));
            }
        }
    }
    match catch(|| ax.to_string().len()) {
        Ok(_) => {}
        Err(p) => {
            any_panic = true;
            if report {
                ctx.dev("C18", format!("C18|render_panic:to_string|{}", p.class()), format!("to_string() panicked ({context}): {} at {}", p.msg, p.loc));
            }
        }
    }
    let after = observe(ax).digest();
    if before != after && report {
        ctx.dev("C18", "C18|render_mutates_state".into(), format!("rendering changed the machine state ({context})"));
    }
    any_panic
}

fn late_register(sc: &Sc, m: &mut Machine, ctx: &mut Ctx, oracles: bool, context: &str) {
    if m.late_next >= sc.late_hooks.len() {
        return;
    }
    let spec = sc.late_hooks[m.late_next].clone();
    m.late_next += 1;
    let running = m.ax.verif_hooks_running();
    let r = m.register(&spec);
    ctx.event("host:late_register", &format!("{context}:{r:?}"));
    if context == "after_hook_error" {
        ctx.probe("register_after_hook_error");
    }
    if oracles && r == Some(false) {
        ctx.dev(
            "C12",
            "C12|register_outside_hook|rejected".into(),
            format!("hook registration {context} was refused although no hook is executing (hooks.running = {running})"),
        );
    }
}

/// Things every driver does after the run ended, in the same order.
fn post_mortem(sc: &Sc, m: &mut Machine, end: &End, ctx: &mut Ctx, oracles: bool) {
    let ctxname = match end {
        End::Finished => "after_finish",
        End::Limit => "after_limit",
        End::ErrBudget => "after_errors",
        _ => "after_other",
    };
    if matches!(end, End::Finished | End::Limit) {
        let before = observe(&m.ax);
        let log_len = m.host.borrow().log.len();
        for k in 0..3u32 {
            let out = if k == 2 {
                match do_execute(&mut m.ax) {
                    ExecOut::Ok => StepOut::Ok(false),
                    ExecOut::Err(e) => StepOut::Err(e),
                    ExecOut::Panic(p) => StepOut::Panic(p),
                }
            } else {
                do_step(&mut m.ax)
            };
            ctx.fault(if matches!(end, End::Finished) { "step_after_finish" } else { "step_after_limit" });
            match out {
                StepOut::Err(_) => {}
                StepOut::Ok(_) => {
                    if oracles {
                        ctx.dev("C11", format!("C11|step_after_end|accepted|{ctxname}"), format!("a further {} {ctxname} returned Ok", if k == 2 { "execute()" } else { "step()" }));
                    }
                }
                StepOut::Panic(p) => {
                    if oracles {
                        ctx.dev("C11", format!("C11|step_after_end|panic|{ctxname}"), format!("step {ctxname} panicked: {}", p.msg));
                    }
                }
            }
            let after = observe(&m.ax);
            if let Some(d) = before.first_diff(&after) {
                if oracles {
                    ctx.dev("C11", format!("C11|step_after_end|state_changed:{d}|{ctxname}"), format!("a failing step {ctxname} changed {d}"));
                }
                break;
            }
        }
        if m.host.borrow().log.len() != log_len && oracles {
            ctx.dev("C12", format!("C12|hook_invoked_after_end|{ctxname}"), "a hook ran during a step that must fail".into());
        }
    }
    late_register(sc, m, ctx, oracles, ctxname);
    let ok = m.handle_syscalls();
    if oracles && !ok {
        ctx.dev("C12", "C12|handle_syscalls_outside_hook|rejected".into(), format!("handle_syscalls {ctxname} was refused although no hook is executing"));
    }
    render_check(&mut m.ax, ctx, ctxname, oracles);
}

fn finish_rec(m: &Machine, end: End, errors: Vec<String>, step_digests: Vec<u64>, initial: Option<Obs>, steps: u64) -> Rec {
    Rec { end, errors, obs: Some(observe(&m.ax)), hook_log: m.host.borrow().log.clone(), step_digests, initial, steps, renders: vec![], reads_unwritten: false }
}

/// Step-driven machine with (optionally) all per-step oracles.
thread_local! {
    /// a second, unrelated machine that is alive on the same thread and takes one step between any two
    /// steps of the machine under test (C20: machines must not influence each other)
    static DECOY: RefCell<Option<Axecutor>> = RefCell::new(None);
}

/// Same layout, different code at the same addresses: every second instruction of the program NOPed out.
fn build_decoy(sc: &Sc) -> Option<Axecutor> {
    let mut code = from_hex(&sc.code);
    let orig = code.clone();
    let mut dec = Decoder::with_ip(64, &orig, sc.code_start, DecoderOptions::NONE);
    let mut k = 0;
    while dec.can_decode() {
        let pos = dec.position();
        let ins = dec.decode();
        if k % 2 == 0 && !ins.is_invalid() {
            for b in code[pos..pos + ins.len()].iter_mut() {
                *b = 0x90;
            }
        }
        k += 1;
    }
    install_ax_rng(sc.rng_a ^ 0xDEC0);
    let mut ax = catch(|| Axecutor::new(&code, sc.code_start, sc.entry)).ok()?.ok()?;
    let _ = catch(|| {
        if let Some(len) = sc.stack_len {
            let _ = ax.init_stack(len);
        }
        for d in sc.data.iter() {
            let _ = ax.mem_init_zero(d.start, d.len);
        }
        for (n, v) in sc.regs.iter() {
            if let Some(i) = gpr_index(n) {
                let _ = ax.reg_write_64(GPR64[i], v.wrapping_add(0x1111));
            }
        }
    });
    Some(ax)
}

fn drive_step(sc: &Sc, rng_seed: u64, ctx: &mut Ctx, oracles: bool, record_digests: bool) -> Rec {
    let mut m = match build(sc, rng_seed, true) {
        Ok(m) => m,
        Err(e) => {
            return Rec { end: End::Construct(e), errors: vec![], obs: None, hook_log: vec![], step_digests: vec![], initial: None, steps: 0, renders: vec![], reads_unwritten: false };
        }
    };
    install_dispatch(&m.host);
    let initial = observe(&m.ax);
    let mask = m.host.borrow().mask.clone();
    let mut tracer = Tracer { entries: initial.trace.clone(), stack: initial.call_stack.clone() };
    if oracles {
        if initial.trace != vec![(0, sc.entry, 0u8, 0i16, 1u64)] || initial.call_stack != vec![sc.entry] {
            ctx.dev("C18", "C18|initial_trace".into(), "a fresh machine does not start with the single pseudo-call to the entry point".into());
        }
    }
    let mut done = vec![false; sc.actions.len()];
    let mut errors: Vec<String> = Vec::new();
    let mut errs_left = sc.err_budget;
    let mut steps = 0u64;
    let mut step_digests: Vec<u64> = Vec::new();
    let mut reads_unwritten = false;
    let end;
    loop {
        apply_actions(sc, &mut m, &mut done, ctx, oracles);
        // the harness cap is expressed in executed instructions so that every driver can observe it
        if (m.ax.verif_executed() >= sc.max_steps && m.real_limit.map(|l| m.ax.verif_executed() < l).unwrap_or(true)) || steps >= 4 * sc.max_steps + 64 {
            ctx.probe("step_cap_hit");
            end = End::StepCap;
            break;
        }
        // ---- pre-state ----
        let pre_count = m.ax.verif_executed();
        let pre_rip = m.ax.reg_read_64(SupportedRegister::RIP).unwrap_or(0);
        let pre_rsp = m.ax.reg_read_64(SupportedRegister::RSP).unwrap_or(0);
        let pre_rax = m.ax.reg_read_64(SupportedRegister::RAX).unwrap_or(0);
        let pre_fin = m.ax.verif_finished();
        let limit_reached = m.real_limit.map(|l| pre_count >= l).unwrap_or(false);
        let ins = fetch(&m.ax, pre_rip);
        let mn_name = ins.map(|i| format!("{:?}", i.mnemonic())).unwrap_or_else(|| "nofetch".into());
        let hooked = ins.map(|_| m.reg.before.contains_key(&mn_name) || m.reg.after.contains_key(&mn_name)).unwrap_or(false);
        let d_pre = if oracles && hooked { digest_ex(&m.ax, &mask, sc.scratch, if sc.patch_slots.is_empty() { 0 } else { sc.code_start }) } else { 0 };
        if record_digests && !reads_unwritten {
            if let Some(i) = ins {
                let mut fac = iced_x86::InstructionInfoFactory::new();
                let info = fac.info(&i);
                let mut regs: Vec<iced_x86::Register> = info.used_registers().iter().map(|u| u.register()).collect();
                for um in info.used_memory() {
                    regs.push(um.base());
                    regs.push(um.index());
                }
                for r in regs {
                    if r == iced_x86::Register::None {
                        continue;
                    }
                    if r.is_xmm() {
                        if !mask.xmm[r.number() % 16] {
                            reads_unwritten = true;
                        }
                    } else if let Some(gi) = gpr_index(&format!("{:?}", r.full_register())) {
                        if !mask.gpr[gi] && gi != 15 {
                            reads_unwritten = true;
                        }
                    }
                }
            }
        }
        let host_stop = m.host_stopped && !pre_fin;
        let must_fail = pre_fin || limit_reached || m.host_stopped;
        let obs_before_fail = if must_fail && oracles { Some(observe(&m.ax)) } else { None };
        let log_start = m.host.borrow().log.len();
        // ---- the step ----
        DECOY.with(|d| {
            if let Some(dm) = d.borrow_mut().as_mut() {
                // no hooks are registered on the decoy; whatever it does is its own business
                set_dispatch(None);
                let _ = do_step(dm);
                install_dispatch(&m.host);
            }
        });
        let out = do_step(&mut m.ax);
        steps += 1;
        ctx.guest_steps += 1;
        ctx.nontrivial = true;
        let foreign = crate::hooks::take_foreign_calls();
        if foreign > 0 && oracles {
            ctx.dev("C12", "C12|foreign_hook_invoked".into(), format!("{foreign} invocation(s) of a hook that was registered on a copy of the machine, never on this one, during the step at {pre_rip:#x} ({mn_name})"));
        }
        let post_count = m.ax.verif_executed();
        let post_rip = m.ax.reg_read_64(SupportedRegister::RIP).unwrap_or(0);
        let post_fin = m.ax.verif_finished();
        let evs: Vec<HookEv> = m.host.borrow().log[log_start..].to_vec();
        // model additions made from inside hooks (only if ax wrongly accepted them)
        let inside: Vec<usize> = m.host.borrow_mut().inside_added.drain(..).collect();
        for id in inside {
            m.model_inv.push(0);
            m.reg.before.entry("Nop".into()).or_default().push(HookId::Ours(id));
        }
        if m.host.borrow().inside_builtin && !m.builtin_registered {
            m.builtin_registered = true;
            m.reg.before.entry("Syscall".into()).or_default().push(HookId::BuiltinExit);
        }
        let out_class = match &out {
            StepOut::Ok(true) => "ok",
            StepOut::Ok(false) => "ok_finished",
            StepOut::Err(_) => "err",
            StepOut::Panic(_) => "panic",
        };
        ctx.event(&format!("step:{mn_name}:{out_class}"), &format!("{pre_rip:x}->{post_rip:x} c={post_count}"));
        for e in evs.iter() {
            ctx.event(&format!("hook:{}:{}", if e.before { "b" } else { "a" }, e.answer), &format!("{} {:x} {} {:x}", e.hook, e.rip, e.count, e.digest));
            match e.answer.as_str() {
                "E" => ctx.fault("hook_err"),
                "SE" => ctx.fault("hook_stop_and_err"),
                "P" => ctx.fault("code_patched_by_hook"),
                "S" | "MS" => ctx.fault("hook_stop"),
                "H" => ctx.fault("hook_handled"),
                "R" | "RS" => ctx.fault("hook_reentrant_register"),
                "M" => ctx.fault("hook_mutate"),
                _ => {}
            }
        }
        if record_digests {
            step_digests.push(digest(&m.ax, &mask, sc.scratch) ^ post_rip.rotate_left(7) ^ post_count.rotate_left(40) ^ (post_fin as u64));
        }

        if must_fail {
            // C11: after finishing / at the limit a step fails and changes nothing
            if oracles {
                let what = if pre_fin {
                    "after=finish"
                } else if host_stop {
                    "after=host_stop"
                } else {
                    "after=limit"
                };
                if host_stop && (matches!(out, StepOut::Ok(_)) || m.ax.verif_executed() != pre_count) {
                    ctx.dev("C12", "C12|host_stop|later_instruction_executed".into(), format!("the host called stop() between two steps, yet the next step() executed {mn_name} at {pre_rip:#x} (count {pre_count} -> {})", m.ax.verif_executed()));
                }
                match &out {
                    StepOut::Err(_) => {}
                    StepOut::Ok(_) => ctx.dev("C11", format!("C11|step_after_end|accepted|{what}"), format!("step() returned Ok although {what}; count {pre_count}")),
                    StepOut::Panic(p) => ctx.dev("C11", format!("C11|step_after_end|panic|{what}"), p.msg.clone()),
                }
                if let Some(b) = obs_before_fail {
                    if let Some(d) = b.first_diff(&observe(&m.ax)) {
                        ctx.dev("C11", format!("C11|step_after_end|state_changed:{d}|{what}"), format!("the failing step changed {d}"));
                    }
                }
                if !pre_fin && !host_stop && m.real_limit.map(|l| pre_count != l).unwrap_or(false) {
                    ctx.dev("C11", "C11|limit|overshoot".into(), format!("limit {:?} but count {pre_count}", m.real_limit));
                }
            }
            if let StepOut::Err(t) = &out {
                errors.push(t.clone());
            }
            if limit_reached && !pre_fin && !host_stop {
                ctx.fault("limit_reached");
            }
            end = if pre_fin || host_stop { End::Finished } else { End::Limit };
            break;
        }

        // ---- C12 automaton ----
        let mut hook_failed = false;
        let mut hook_stopped = false;
        let mut before_stopped = false;
        if oracles {
            let (hf, hs, bs) = c12_check(sc, &mut m, ctx, &ins, &mn_name, &evs, &out, pre_count, pre_rax, d_pre, post_rip, post_fin, &mask);
            hook_failed = hf;
            hook_stopped = hs;
            before_stopped = bs;
        } else {
            for e in evs.iter() {
                if e.answer == "E" || e.answer == "SE" {
                    hook_failed = true;
                }
                if e.answer == "S" || e.answer == "SE" || e.answer == "MS" {
                    hook_stopped = true;
                    if e.before {
                        before_stopped = true;
                    }
                }
            }
            if m.builtin_registered && ins.map(|i| i.mnemonic() == Mnemonic::Syscall).unwrap_or(false) && pre_rax == 60 {
                hook_stopped = true;
                before_stopped = true;
            }
        }

        match &out {
            StepOut::Ok(ret) => {
                if oracles {
                    if let Some(i) = ins {
                        // ---- C11 per-step ----
                        if post_count != pre_count + 1 {
                            ctx.dev("C11", format!("C11|count|{mn_name}"), format!("count went {pre_count} -> {post_count} on a successful step"));
                        }
                        if *ret == post_fin {
                            ctx.dev("C11", format!("C11|return_value|{mn_name}"), format!("step returned {ret} with finished={post_fin}"));
                        }
                        let fc = i.flow_control();
                        if fc == FlowControl::Next || is_trap(i.mnemonic()) {
                            if post_rip != i.next_ip() {
                                ctx.dev("C11", format!("C11|rip|sequential|{mn_name}"), format!("RIP {post_rip:#x} after a non-transferring instruction at {pre_rip:#x}, next is {:#x}", i.next_ip()));
                            }
                        } else if fc == FlowControl::ConditionalBranch && post_rip != i.next_ip() && post_rip != i.near_branch_target() {
                            ctx.dev("C11", format!("C11|rip|conditional|{mn_name}"), format!("RIP {post_rip:#x} is neither fall-through nor target"));
                        }
                        let top_ret = i.mnemonic() == Mnemonic::Ret && m.rsp0 == Some(pre_rsp);
                        let at_end = post_rip == m.code_end;
                        let exp_fin = at_end || top_ret || hook_stopped;
                        if exp_fin != post_fin {
                            let cause = if at_end {
                                "code_end"
                            } else if top_ret {
                                "top_level_ret"
                            } else if hook_stopped {
                                "hook_stop"
                            } else {
                                "none"
                            };
                            ctx.dev("C11", format!("C11|finished|want={exp_fin}|cause={cause}|{mn_name}"), format!("finished={post_fin} after {mn_name} at {pre_rip:#x}, RIP now {post_rip:#x}, code end {:#x}", m.code_end));
                        }
                        if post_fin {
                            if at_end {
                                ctx.probe("finish_code_end");
                            } else if top_ret {
                                ctx.probe("finish_top_level_ret");
                            } else if hook_stopped {
                                ctx.probe("finish_hook_stop");
                            }
                        }
                        // ---- C18 tracer ----
                        c18_check(ctx, &mut tracer, &m.ax, &i, &mn_name, post_rip, top_ret && post_fin, before_stopped);
                    }
                    if hook_stopped && *ret {
                        ctx.dev("C12", "C12|stop|step_reports_running".into(), "a hook stopped the run but step() returned true".into());
                    }
                    // rendering costs O(depth^2) characters: thin it out on deep runs
                    let weight = m.ax.verif_call_stack().len() + tracer.entries.len();
                    let stride = if weight < 256 { 16 } else if weight < 2048 { 256 } else { 4096 };
                    if steps % stride == 0 {
                        render_check(&mut m.ax, ctx, "boundary", true);
                    }
                }
                if !*ret {
                    end = End::Finished;
                    break;
                }
            }
            StepOut::Err(t) => {
                errors.push(t.clone());
                if ins.is_none() {
                    ctx.fault("fetch_fault");
                } else if hook_failed {
                    // counted per event above
                } else {
                    ctx.fault("guest_fault");
                }
                if oracles {
                    let actual: Vec<(u64, u64, u8, i16, u64)> = m.ax.verif_trace().iter().map(|t| (t.instr_ip, t.target, t.variant, t.level, t.count)).collect();
                    let actual_stack = m.ax.verif_call_stack();
                    let after_hook_failed = evs.iter().any(|e| !e.before && (e.answer == "E" || e.answer == "SE"));
                    if let (Some(i), true) = (ins, after_hook_failed) {
                        // the instruction itself completed (its after-hook failed): it is traced like any other
                        let top_ret = i.mnemonic() == Mnemonic::Ret && m.rsp0 == Some(pre_rsp);
                        // ... and it counts and finishes like any other (C11)
                        let at_end = post_rip == m.code_end;
                        let exp_fin = at_end || top_ret || hook_stopped;
                        if exp_fin != post_fin {
                            ctx.dev("C11", format!("C11|finished|want={exp_fin}|after_hook_error|{mn_name}"), format!("finished={post_fin} after {mn_name} whose after-hook failed (code end: {at_end}, top-level RET: {top_ret}, hook stop: {hook_stopped})"));
                        }
                        if post_count != pre_count + 1 {
                            ctx.dev("C11", format!("C11|count|after_hook_error|{mn_name}"), format!("count went {pre_count} -> {post_count} although the instruction completed"));
                        }
                        c18_check(ctx, &mut tracer, &m.ax, &i, &mn_name, post_rip, top_ret && post_fin, before_stopped);
                    } else if !before_stopped {
                        // the instruction did not complete (guest fault, fetch fault or failing before-hook):
                        // no transfer was taken, so the trace and the call stack describe the same execution as before
                        if actual != tracer.entries {
                            ctx.dev("C18", format!("C18|entry_spurious|failed_instruction|{mn_name}"), format!("{mn_name} at {pre_rip:#x} failed, yet the trace changed: tail {:?}, before {:?}", actual.last(), tracer.entries.last()));
                        }
                        if actual_stack != tracer.stack {
                            ctx.dev("C18", format!("C18|callstack|failed_instruction|{mn_name}"), format!("{mn_name} at {pre_rip:#x} failed, yet the call stack changed: {:x?} vs {:x?}", actual_stack, tracer.stack));
                        }
                        if ins.map(|i| matches!(i.mnemonic(), Mnemonic::Call | Mnemonic::Ret | Mnemonic::Jmp)).unwrap_or(false) {
                            ctx.probe("failed_control_transfer");
                        }
                    }
                    tracer.entries = actual;
                    tracer.stack = actual_stack;
                    render_check(&mut m.ax, ctx, "after_err", true);
                }
                if post_fin {
                    // the failing hook ran on the instruction that ended the run
                    end = End::Finished;
                    break;
                }
                late_register(sc, &mut m, ctx, oracles, if hook_failed { "after_hook_error" } else { "after_guest_fault" });
                if errs_left == 0 {
                    end = End::ErrBudget;
                    break;
                }
                errs_left -= 1;
            }
            StepOut::Panic(p) => {
                // whose panic? if a renderer panics on this state it is C18's (step() decorates
                // every error with trace() and call_stack()), otherwise it is C19 material
                let rp = render_check(&mut m.ax, ctx, "after_step_panic", false);
                if rp {
                    if oracles {
                        let neg = m.ax.verif_trace().iter().any(|t| t.level < 0);
                        ctx.dev(
                            "C18",
                            format!("C18|render_panic:step|{}|{}", if neg { "negative_level" } else { "nonnegative_level" }, p.class()),
                            format!("step() panicked while rendering its error: {} at {}", p.msg, p.loc),
                        );
                    }
                } else {
                    ctx.dev("C19", format!("C19|e2_step_panic|{mn_name}|{}", p.class()), format!("{} at {}", p.msg, p.loc));
                }
                end = End::Panic(p.class());
                break;
            }
        }
    }
    if oracles {
        // full trace comparison at the end
        let actual: Vec<(u64, u64, u8, i16, u64)> = m.ax.verif_trace().iter().map(|t| (t.instr_ip, t.target, t.variant, t.level, t.count)).collect();
        if actual.iter().any(|t| t.3 < 0) {
            ctx.probe("negative_trace_level");
        }
        if actual.iter().any(|t| t.4 > 1) {
            ctx.probe("trace_count_collapsed");
        }
    }
    let final_obs_before_pm = observe(&m.ax);
    let mut renders: Vec<String> = Vec::new();
    if record_digests && !matches!(end, End::Panic(_)) {
        renders.push(catch(|| m.ax.trace().unwrap_or_else(|e| e.to_string())).unwrap_or_else(|p| p.msg));
        renders.push(catch(|| m.ax.call_stack().unwrap_or_else(|e| e.to_string())).unwrap_or_else(|p| p.msg));
        for (_, _, names) in sc.symbols.iter().take(8).map(|(o, n)| (o, n, ())) {
            let _ = names;
        }
        for (off, _) in sc.symbols.iter() {
            renders.push(format!("{:?}", m.ax.resolve_symbol(sc.code_start + off)));
        }
        for r in renders.iter() {
            ctx.log_u64(fnv1a(r.as_bytes()));
        }
    }
    if !matches!(end, End::Panic(_)) {
        post_mortem(sc, &mut m, &end, ctx, oracles);
    }
    ctx.log_u64(final_obs_before_pm.digest());
    for e in errors.iter() {
        ctx.log_u64(fnv1a(e.as_bytes()));
    }
    let mut rec = finish_rec(&m, end, errors, step_digests, Some(initial), steps);
    rec.obs = Some(final_obs_before_pm);
    rec.renders = renders;
    rec.reads_unwritten = reads_unwritten;
    set_dispatch(None);
    rec
}

#[allow(clippy::too_many_arguments)]
fn c12_check(
    sc: &Sc,
    m: &mut Machine,
    ctx: &mut Ctx,
    ins: &Option<Instruction>,
    mn_name: &str,
    evs: &[HookEv],
    out: &StepOut,
    pre_count: u64,
    pre_rax: u64,
    d_pre: u64,
    post_rip: u64,
    post_fin: bool,
    mask: &Mask,
) -> (bool, bool, bool) {
    let mut hook_failed = false;
    let mut hook_stopped = false;
    let mut before_stopped = false;
    let specs: Vec<HookSpec> = m.host.borrow().specs.clone();
    let answer_of = |h: usize, k: usize| -> String { specs.get(h).and_then(|s| s.script.get(k)).cloned().unwrap_or_else(|| "U".to_string()) };
    let ins = match ins {
        Some(i) => *i,
        None => {
            if !evs.is_empty() {
                ctx.dev("C12", "C12|hooks_without_instruction".into(), "hooks ran although no instruction could be fetched".into());
            }
            return (false, false, false);
        }
    };
    // ---- predict ----
    #[derive(PartialEq, Clone, Copy, Debug)]
    enum Ph {
        Continue,
        Handled,
        Stopped,
        Failed,
    }
    let mut pred_before: Vec<(usize, String)> = Vec::new();
    let mut ph_before = Ph::Continue;
    let mut inv = m.model_inv.clone();
    if let Some(list) = m.reg.before.get(mn_name) {
        for h in list.iter() {
            match h {
                HookId::BuiltinExit => {
                    if pre_rax == 60 {
                        ph_before = Ph::Stopped;
                        hook_stopped = true;
                        before_stopped = true;
                        break;
                    }
                }
                HookId::Ours(id) => {
                    let a = answer_of(*id, inv[*id]);
                    inv[*id] += 1;
                    pred_before.push((*id, a.clone()));
                    match a.as_str() {
                        "E" | "SE" => {
                            ph_before = Ph::Failed;
                            break;
                        }
                        "H" => {
                            ph_before = Ph::Handled;
                            break;
                        }
                        "S" | "MS" => {
                            ph_before = Ph::Stopped;
                            break;
                        }
                        _ => {}
                    }
                }
            }
        }
    }
    let mut pred_after: Vec<(usize, String)> = Vec::new();
    let mut ph_after = Ph::Continue;
    if ph_before != Ph::Failed {
        if let Some(list) = m.reg.after.get(mn_name) {
            for h in list.iter() {
                if let HookId::Ours(id) = h {
                    let a = answer_of(*id, inv[*id]);
                    inv[*id] += 1;
                    pred_after.push((*id, a.clone()));
                    match a.as_str() {
                        "E" | "SE" => {
                            ph_after = Ph::Failed;
                            break;
                        }
                        "H" => {
                            ph_after = Ph::Handled;
                            break;
                        }
                        "S" | "MS" => {
                            ph_after = Ph::Stopped;
                            break;
                        }
                        _ => {}
                    }
                }
            }
        }
    }
    // ---- observed ----
    let obs_before: Vec<(usize, String)> = evs.iter().filter(|e| e.before).map(|e| (e.hook, e.answer.clone())).collect();
    let obs_after: Vec<(usize, String)> = evs.iter().filter(|e| !e.before).map(|e| (e.hook, e.answer.clone())).collect();
    // order: all before events precede all after events
    let mut seen_after = false;
    for e in evs.iter() {
        if !e.before {
            seen_after = true;
        } else if seen_after {
            ctx.dev("C12", format!("C12|order|before_after_interleaved|{mn_name}"), "a before-hook ran after an after-hook of the same instruction".into());
        }
    }
    for e in evs.iter() {
        match e.answer.as_str() {
            "E" => hook_failed = true,
            "SE" => {
                hook_failed = true;
                hook_stopped = true;
                if e.before {
                    before_stopped = true;
                }
            }
            "S" | "MS" => {
                hook_stopped = true;
                if e.before {
                    before_stopped = true;
                }
            }
            _ => {}
        }
        if !e.mn_ok {
            ctx.dev("C12", format!("C12|wrong_mnemonic|phase={}|{mn_name}", if e.before { "before" } else { "after" }), format!("hook {} registered for {} was invoked for {mn_name}", e.hook, specs[e.hook].mnemonic));
        }
        if let Some(true) = e.reg_inside {
            ctx.dev("C12", "C12|register_inside_hook|accepted".into(), "a registration made from inside a running hook was accepted".into());
        }
    }
    if matches!(out, StepOut::Panic(_)) {
        // a crashing step is reported by its own property; no claim about which hooks ran
        let actual_inv = m.host.borrow().inv.clone();
        m.model_inv = actual_inv;
        return (hook_failed, hook_stopped, before_stopped);
    }
    let instr_failed = matches!(out, StepOut::Err(_)) && !hook_failed;
    if instr_failed && is_trap(ins.mnemonic()) && (m.reg.before.get(mn_name).map(|l| !l.is_empty()).unwrap_or(false) || m.reg.after.get(mn_name).map(|l| !l.is_empty()).unwrap_or(false)) {
        // SYSCALL / INT only fail for lack of a hook; every registration the host was told succeeded must count
        ctx.dev("C12", format!("C12|registered_hook_not_effective|{mn_name}"), format!("{mn_name} failed although hooks are registered for it (a registration that returned Ok installed nothing?): {out:?}").chars().take(400).collect());
    }
    let mut mismatch = false;
    if obs_before != pred_before {
        mismatch = true;
        let cls = seq_class(&pred_before, &obs_before);
        ctx.dev("C12", format!("C12|before_hooks|{cls}|{mn_name_class}", mn_name_class = "any"), format!("{mn_name} at count {pre_count}: predicted before-hooks {pred_before:?}, observed {obs_before:?}"));
    } else {
        // after hooks
        let ok = if instr_failed {
            if !obs_after.is_empty() {
                ctx.dev("C12", "C12|after_hooks|ran_after_failed_instruction".into(), format!("{mn_name}: the instruction failed but after-hooks ran: {obs_after:?}"));
            }
            true
        } else if ph_before == Ph::Failed {
            obs_after.is_empty()
        } else if ph_before == Ph::Stopped {
            // permissive: the statement only forbids later instructions
            obs_after.len() <= pred_after.len() && obs_after[..] == pred_after[..obs_after.len()]
        } else if ph_before == Ph::Handled {
            obs_after.is_empty() || obs_after == pred_after
        } else {
            obs_after == pred_after
        };
        if !ok {
            mismatch = true;
            let cls = seq_class(&pred_after, &obs_after);
            let fin_before_after = post_rip == m.code_end || (ins.mnemonic() == Mnemonic::Ret && post_fin);
            let context = if fin_before_after && cls == "skipped" { "finishing_instruction" } else { "any" };
            if fin_before_after {
                ctx.probe("after_hooks_on_finishing_instruction");
            }
            ctx.dev("C12", format!("C12|after_hooks|{cls}|{context}"), format!("{mn_name} at count {pre_count}: predicted after-hooks {pred_after:?}, observed {obs_after:?} (finished={post_fin})"));
        } else if !pred_after.is_empty() && (post_rip == m.code_end) {
            ctx.probe("after_hooks_on_finishing_instruction");
        }
    }
    // what the hooks saw
    let d_post = digest_ex(&m.ax, mask, sc.scratch, if sc.patch_slots.is_empty() { 0 } else { sc.code_start });
    for e in evs.iter() {
        if e.before {
            if e.rip != ins.next_ip() {
                ctx.dev("C12", "C12|view|before|rip".into(), format!("before-hook saw RIP {:#x}, next instruction is {:#x}", e.rip, ins.next_ip()));
            }
            if e.count != pre_count {
                ctx.dev("C12", "C12|view|before|count".into(), format!("before-hook saw count {} at pre-count {pre_count}", e.count));
            }
            if e.digest != d_pre {
                ctx.dev("C12", format!("C12|view|before|state|{mn_name}"), "before-hook saw a machine state different from the pre-instruction state".into());
            }
        } else {
            if e.rip != post_rip {
                ctx.dev("C12", "C12|view|after|rip".into(), format!("after-hook saw RIP {:#x}, instruction went to {post_rip:#x}", e.rip));
            }
            if e.count != pre_count + 1 {
                ctx.dev("C12", "C12|view|after|count".into(), format!("after-hook saw count {} at pre-count {pre_count}", e.count));
            }
            if e.digest != d_post {
                ctx.dev("C12", format!("C12|view|after|state|{mn_name}"), "after-hook saw a machine state different from the post-instruction state".into());
            }
        }
    }
    // outcome of the step
    match out {
        StepOut::Ok(_) => {
            if hook_failed {
                let also_stopped = evs.iter().any(|e| e.answer == "SE");
                ctx.dev("C12", format!("C12|hook_error|step_ok|{}", if also_stopped { "hook_also_stopped" } else { "plain" }), "a hook failed but step() returned Ok".into());
            }
        }
        StepOut::Err(_) => {}
        StepOut::Panic(_) => {}
    }
    // modifications persist
    let (last_mutate, scratch) = {
        let h = m.host.borrow();
        (h.last_mutate, h.scratch)
    };
    if let Some(v) = last_mutate {
        let r15 = m.ax.reg_read_64(SupportedRegister::R15).unwrap_or(0);
        if r15 != v {
            ctx.dev("C12", "C12|mutation_lost|register".into(), format!("R15 = {r15:#x}, last hook wrote {v:#x}"));
        }
        if scratch != 0 {
            let mv = m.ax.verif_area_data(scratch).map(|d| u64::from_le_bytes(d[..8].try_into().unwrap())).unwrap_or(0);
            if mv != v {
                ctx.dev("C12", "C12|mutation_lost|memory".into(), format!("scratch cell = {mv:#x}, last hook wrote {v:#x}"));
            }
        }
    }
    // re-synchronise the model's invocation counters with reality
    let actual_inv = m.host.borrow().inv.clone();
    if mismatch {
        m.model_inv = actual_inv;
    } else {
        // permissive branches may have consumed fewer answers than predicted
        m.model_inv = actual_inv;
    }
    while m.model_inv.len() < m.host.borrow().specs.len() {
        m.model_inv.push(0);
    }
    let _ = ph_after;
    (hook_failed, hook_stopped, before_stopped)
}

fn seq_class(pred: &[(usize, String)], obs: &[(usize, String)]) -> &'static str {
    if obs.len() < pred.len() && obs[..] == pred[..obs.len()] {
        "skipped"
    } else if obs.len() > pred.len() && obs[..pred.len()] == pred[..] {
        "extra"
    } else {
        let mut a: Vec<usize> = pred.iter().map(|x| x.0).collect();
        let mut b: Vec<usize> = obs.iter().map(|x| x.0).collect();
        a.sort();
        b.sort();
        if a == b {
            "order"
        } else {
            "different"
        }
    }
}

#[allow(clippy::too_many_arguments)]
fn c18_check(ctx: &mut Ctx, tr: &mut Tracer, ax: &Axecutor, i: &Instruction, mn_name: &str, post_rip: u64, finishing_ret: bool, before_stopped: bool) {
    let actual: Vec<(u64, u64, u8, i16, u64)> = ax.verif_trace().iter().map(|t| (t.instr_ip, t.target, t.variant, t.level, t.count)).collect();
    let actual_stack = ax.verif_call_stack();
    if before_stopped {
        // no claim about the effects of an instruction whose before-hook stopped the run
        tr.entries = actual;
        tr.stack = actual_stack;
        return;
    }
    let fc = i.flow_control();
    // None = no entry expected, Some(v) = entry of variant v expected
    let mut ambiguous = false;
    let kind: Option<u8> = match fc {
        FlowControl::Call | FlowControl::IndirectCall if i.mnemonic() == Mnemonic::Call => Some(0),
        FlowControl::Return if i.mnemonic() == Mnemonic::Ret => Some(1),
        FlowControl::UnconditionalBranch | FlowControl::IndirectBranch if i.mnemonic() == Mnemonic::Jmp => Some(2),
        FlowControl::ConditionalBranch => {
            if post_rip != i.next_ip() {
                Some(2)
            } else if i.near_branch_target() == i.next_ip() {
                ambiguous = true;
                None
            } else {
                None
            }
        }
        _ => None,
    };
    if finishing_ret {
        // the RET that ends the run may or may not be listed
        tr.entries = actual;
        tr.stack = actual_stack;
        return;
    }
    if ambiguous {
        tr.entries = actual;
        tr.stack = actual_stack;
        return;
    }
    if let Some(v) = kind {
        let collapse = v == 2 && tr.entries.last().map(|l| l.2 == 2 && l.0 == i.ip() && l.1 == post_rip).unwrap_or(false);
        if collapse {
            tr.entries.last_mut().unwrap().4 += 1;
        } else {
            let level = match tr.entries.last() {
                Some(l) => l.3.wrapping_add(match l.2 {
                    0 => 1,
                    1 => -1,
                    _ => 0,
                }),
                None => 0,
            };
            tr.entries.push((i.ip(), post_rip, v, level, 1));
        }
        match v {
            0 => tr.stack.push(post_rip),
            1 => {
                if tr.stack.pop().is_none() {
                    ctx.probe("return_with_empty_call_stack");
                }
            }
            _ => {}
        }
        if v == 1 {
            ctx.probe("return_traced");
        }
    }
    let kind_name = match kind {
        Some(0) => "call",
        Some(1) => "return",
        Some(2) => "jump",
        _ => "none",
    };
    if actual != tr.entries {
        let cls = if actual.len() < tr.entries.len() {
            "entry_missing".to_string()
        } else if actual.len() > tr.entries.len() {
            "entry_spurious".to_string()
        } else {
            let mut c = "entry_fields";
            for (a, b) in actual.iter().zip(tr.entries.iter()) {
                if a != b {
                    c = if a.0 != b.0 || a.1 != b.1 || a.2 != b.2 {
                        "entry_fields"
                    } else if a.4 != b.4 {
                        "count"
                    } else {
                        "level"
                    };
                    break;
                }
            }
            c.to_string()
        };
        ctx.dev(
            "C18",
            format!("C18|{cls}|{kind_name}|{mn_name}"),
            format!("after {mn_name} at {:#x} -> {post_rip:#x}: trace tail is {:?}, tracer expects {:?}", i.ip(), actual.last(), tr.entries.last()),
        );
        tr.entries = actual;
    }
    if actual_stack != tr.stack {
        ctx.dev("C18", format!("C18|callstack|{kind_name}|{mn_name}"), format!("call stack {:x?}, tracer expects {:x?}", actual_stack, tr.stack));
        tr.stack = actual_stack;
    }
}

/// execute()-driven machine: pure (no cuts) or bursts pre-empted by temporary limits.
fn drive_exec(sc: &Sc, rng_seed: u64, ctx: &mut Ctx, cuts: &[u64]) -> Rec {
    let mut m = match build(sc, rng_seed, false) {
        Ok(m) => m,
        Err(e) => {
            return Rec { end: End::Construct(e), errors: vec![], obs: None, hook_log: vec![], step_digests: vec![], initial: None, steps: 0, renders: vec![], reads_unwritten: false };
        }
    };
    install_dispatch(&m.host);
    let initial = observe(&m.ax);
    let mut done = vec![false; sc.actions.len()];
    let mut errors: Vec<String> = Vec::new();
    let mut errs_left = sc.err_budget;
    let mut all_cuts: Vec<u64> = cuts.to_vec();
    for a in sc.actions.iter() {
        all_cuts.push(a.at);
    }
    all_cuts.sort();
    all_cuts.dedup();
    let real = sc.limit;
    let mut calls = 0u64;
    let end;
    loop {
        calls += 1;
        if calls > 4 * sc.max_steps + 64 {
            end = End::StepCap;
            break;
        }
        apply_actions(sc, &mut m, &mut done, ctx, false);
        let count = m.ax.verif_executed();
        if count >= sc.max_steps && real.map(|l| count < l).unwrap_or(true) {
            // the step-driven machine stops at the harness cap; mirror it
            end = End::StepCap;
            break;
        }
        // next temporary limit: the smallest cut > count (and below the real limit); also never run past the harness step cap
        let mut temp: Option<u64> = all_cuts.iter().copied().find(|c| *c > count);
        let cap = sc.max_steps;
        temp = Some(temp.map(|t| t.min(cap)).unwrap_or(cap));
        if let (Some(t), Some(r)) = (temp, real) {
            if t >= r {
                temp = None;
            }
        }
        let lim = temp.or(real).unwrap_or(u64::MAX);
        m.ax.set_max_instructions(lim);
        let log_before = m.host.borrow().log.len();
        let out = do_execute(&mut m.ax);
        ctx.guest_steps += m.ax.verif_executed().saturating_sub(count);
        match out {
            ExecOut::Ok => {
                end = End::Finished;
                break;
            }
            ExecOut::Err(t) => {
                let c = m.ax.verif_executed();
                // a failing hook is the last thing that happened in this call (an after-hook fails
                // *after* the count moved, so the count alone cannot tell it from the limit error)
                let hook_failed = {
                    let h = m.host.borrow();
                    h.log.len() > log_before && h.log.last().map(|e| e.answer == "E" || e.answer == "SE").unwrap_or(false)
                };
                if !hook_failed {
                    if let Some(tl) = temp {
                        if c >= tl && !m.ax.verif_finished() {
                            ctx.fault("limit_preempt");
                            continue;
                        }
                    }
                    if real.map(|l| c >= l).unwrap_or(false) && !m.ax.verif_finished() {
                        errors.push(t);
                        // the step-driven machine applies host actions due at this count before its failing step
                        apply_actions(sc, &mut m, &mut done, ctx, false);
                        end = End::Limit;
                        break;
                    }
                }
                errors.push(t);
                if m.ax.verif_finished() {
                    // the failing hook ran on the instruction that ended the run
                    end = End::Finished;
                    break;
                }
                late_register(sc, &mut m, ctx, false, if hook_failed { "after_hook_error" } else { "after_guest_fault" });
                if errs_left == 0 {
                    end = End::ErrBudget;
                    break;
                }
                errs_left -= 1;
            }
            ExecOut::Panic(p) => {
                end = End::Panic(p.class());
                break;
            }
        }
    }
    let obs = observe(&m.ax);
    if !matches!(end, End::Panic(_)) {
        post_mortem(sc, &mut m, &end, ctx, false);
    }
    let mut rec = finish_rec(&m, end, errors, vec![], Some(initial), 0);
    rec.obs = Some(obs);
    set_dispatch(None);
    rec
}

fn compare(ctx: &mut Ctx, prop: &str, what: &str, a: &Rec, b: &Rec, mask: Option<(&Sc, &Rec, &Rec)>) {
    if a.end != b.end {
        ctx.dev(prop, format!("{prop}|{what}|result|{}_vs_{}", a.end.class(), b.end.class()), format!("end {:?} vs {:?}", a.end, b.end));
        return;
    }
    if a.errors.len() != b.errors.len() {
        ctx.dev(prop, format!("{prop}|{what}|error_count"), format!("{} vs {} failed steps", a.errors.len(), b.errors.len()));
        return;
    }
    for (x, y) in a.errors.iter().zip(b.errors.iter()) {
        if x != y {
            ctx.dev(prop, format!("{prop}|{what}|error_text"), format!("error texts differ:\n--- {x}\n+++ {y}"));
            return;
        }
    }
    if a.hook_log.len() != b.hook_log.len() {
        ctx.dev(prop, format!("{prop}|{what}|hook_log_length"), format!("{} vs {} hook invocations", a.hook_log.len(), b.hook_log.len()));
        return;
    }
    for (x, y) in a.hook_log.iter().zip(b.hook_log.iter()) {
        if x != y {
            ctx.dev(prop, format!("{prop}|{what}|hook_view|{}", if x.before { "before" } else { "after" }), format!("hook invocations differ: {x:?} vs {y:?}"));
            return;
        }
    }
    if a.renders != b.renders {
        ctx.dev(prop, format!("{prop}|{what}|render_text"), format!("trace() / call_stack() / resolve_symbol() texts differ between the machines:\n--- {:?}\n+++ {:?}", a.renders.iter().zip(b.renders.iter()).find(|(x, y)| x != y).map(|x| x.0), a.renders.iter().zip(b.renders.iter()).find(|(x, y)| x != y).map(|x| x.1)));
        return;
    }
    if let (Some(oa), Some(ob)) = (&a.obs, &b.obs) {
        match mask {
            None => {
                if let Some(d) = oa.first_diff(ob) {
                    ctx.dev(prop, format!("{prop}|{what}|{d}"), format!("final states differ in {d}"));
                }
            }
            Some((sc, ra, rb)) => {
                // C20: compare what was written explicitly; everything else must still hold its own initial value
                let mut m = Mask { gpr: [false; 16], xmm: [false; 16] };
                for (n, _) in sc.regs.iter() {
                    if let Some(i) = gpr_index(n) {
                        m.gpr[i] = true;
                    }
                }
                if sc.stack_len.is_some() {
                    m.gpr[6] = true;
                }
                for (i, _) in sc.xregs.iter() {
                    m.xmm[*i as usize % 16] = true;
                }
                let hooks_mutate = a.hook_log.iter().any(|e| e.answer == "M");
                for i in 0..16 {
                    if m.gpr[i] || (i == 15 && hooks_mutate) {
                        if oa.gpr[i] != ob.gpr[i] {
                            ctx.dev(prop, format!("{prop}|{what}|reg"), format!("{} differs: {:#x} vs {:#x}", GPR64_NAMES[i], oa.gpr[i], ob.gpr[i]));
                            return;
                        }
                    } else if i != 15 {
                        for (o, r) in [(oa, ra), (ob, rb)] {
                            if let Some(init) = &r.initial {
                                if o.gpr[i] != init.gpr[i] {
                                    ctx.dev(prop, format!("{prop}|{what}|stray_write|reg"), format!("{} was never mentioned by the program but changed from {:#x} to {:#x}", GPR64_NAMES[i], init.gpr[i], o.gpr[i]));
                                    return;
                                }
                            }
                        }
                    }
                }
                for i in 0..16 {
                    if m.xmm[i] {
                        if oa.xmm[i] != ob.xmm[i] {
                            ctx.dev(prop, format!("{prop}|{what}|xmm"), format!("XMM{i} differs"));
                            return;
                        }
                    } else {
                        for (o, r) in [(oa, ra), (ob, rb)] {
                            if let Some(init) = &r.initial {
                                if o.xmm[i] != init.xmm[i] {
                                    ctx.dev(prop, format!("{prop}|{what}|stray_write|xmm"), format!("XMM{i} was never mentioned by the program but changed"));
                                    return;
                                }
                            }
                        }
                    }
                }
                let comp = if oa.rip != ob.rip {
                    Some("rip")
                } else if oa.rflags != ob.rflags {
                    Some("flags")
                } else if oa.fs != ob.fs || oa.gs != ob.gs {
                    Some("segbase")
                } else if oa.finished != ob.finished {
                    Some("finished")
                } else if oa.executed != ob.executed {
                    Some("count")
                } else if oa.areas != ob.areas {
                    Some("mem")
                } else if oa.trace != ob.trace {
                    Some("trace")
                } else if oa.call_stack != ob.call_stack {
                    Some("callstack")
                } else {
                    None
                };
                if let Some(c) = comp {
                    ctx.dev(prop, format!("{prop}|{what}|{c}"), format!("final states differ in {c}"));
                }
            }
        }
    }
}

pub fn run(prop: &str, sc: &Sc, ctx: &mut Ctx) {
    for p in [
        "step_cap_hit", "finish_code_end", "finish_top_level_ret", "finish_hook_stop", "after_hooks_on_finishing_instruction",
        "negative_trace_level", "trace_count_collapsed", "return_with_empty_call_stack", "register_after_hook_error", "return_traced", "failed_control_transfer", "symbols_from_image", "c20_skipped_reads_unwritten_register",
    ] {
        ctx.probes.entry(p.to_string()).or_insert(0);
    }
    let want_digests = prop == "C20";
    let b = drive_step(sc, sc.rng_a, ctx, true, want_digests);
    if let End::Construct(e) = &b.end {
        ctx.harness_errors.push(format!("machine construction failed: {e}"));
        return;
    }
    match prop {
        "C11" => {
            if sc.actions.is_empty() {
                let a = drive_exec(sc, sc.rng_a, ctx, &[]);
                compare(ctx, "C11", "equiv|execute_vs_step", &a, &b, None);
            }
            let bp = drive_exec(sc, sc.rng_a, ctx, &sc.cuts);
            compare(ctx, "C11", "equiv|bursts_vs_step", &bp, &b, None);
        }
        "C20" => {
            // the second machine does not run alone: a decoy machine with different code at the same
            // addresses is constructed first and takes a step before each of its steps
            let with_decoy = sc.rng_b % 2 == 0;
            if with_decoy {
                let d = build_decoy(sc);
                DECOY.with(|x| *x.borrow_mut() = d);
                ctx.fault("decoy_machine_interleaved");
            }
            let b2 = drive_step(sc, sc.rng_b, ctx, false, true);
            DECOY.with(|x| *x.borrow_mut() = None);
            if b.reads_unwritten || b2.reads_unwritten {
                // control flow left the program as assembled (e.g. a return into the middle of an instruction)
                // and executed bytes that read a register nobody wrote: no verdict for this run
                ctx.probe("c20_skipped_reads_unwritten_register");
                return;
            }
            // per-step comparison first: it localises the divergence
            let n = b.step_digests.len().min(b2.step_digests.len());
            let mut diverged = false;
            for k in 0..n {
                if b.step_digests[k] != b2.step_digests[k] {
                    ctx.dev("C20", "C20|two_machines|step_state".into(), format!("the two machines diverge at step {k} (only the constructor's random values differ)"));
                    diverged = true;
                    break;
                }
            }
            if !diverged {
                compare(ctx, "C20", "two_machines", &b, &b2, Some((sc, &b, &b2)));
            }
            ctx.fault("rng_stream_varied");
        }
        _ => {}
    }
}
