//! axsim - deterministic simulation with fault injection for xarantolus/ax.
//!
//!   axsim run <PROP> [quick|thorough]     supervisor: the check registered in MANIFEST.json
//!   axsim replay <file> [verbose]         re-run a replay file in a fresh process
//!   axsim worker ...                      (internal) run a range of run indices
//!   axsim exec-one <PROP> [verbose]       (internal) run one scenario read from stdin
//!   axsim gen <PROP> <tier> <idx>         print the scenario of one run (debugging)

mod combo;
mod common;
mod e1;
mod e2;
mod e3;
mod e4;
mod e5;
mod engine;
mod hooks;
mod regs;
mod rng;
mod sup;

use std::alloc::{GlobalAlloc, Layout, System};
use std::sync::atomic::{AtomicUsize, Ordering};

/// Allocation seam: requests above the cap are refused (null). Infallible allocations then
/// abort the worker, which the supervisor reports as `abort:alloc` for exactly that run.
pub struct CapAlloc;
pub static ALLOC_CAP: AtomicUsize = AtomicUsize::new(usize::MAX);
pub static ALLOC_MAX_SEEN: AtomicUsize = AtomicUsize::new(0);

unsafe impl GlobalAlloc for CapAlloc {
    unsafe fn alloc(&self, l: Layout) -> *mut u8 {
        if l.size() > ALLOC_CAP.load(Ordering::Relaxed) {
            denied(l.size());
            return std::ptr::null_mut();
        }
        System.alloc(l)
    }
    unsafe fn dealloc(&self, p: *mut u8, l: Layout) {
        System.dealloc(p, l)
    }
    unsafe fn alloc_zeroed(&self, l: Layout) -> *mut u8 {
        if l.size() > ALLOC_CAP.load(Ordering::Relaxed) {
            denied(l.size());
            return std::ptr::null_mut();
        }
        System.alloc_zeroed(l)
    }
    unsafe fn realloc(&self, p: *mut u8, l: Layout, n: usize) -> *mut u8 {
        if n > ALLOC_CAP.load(Ordering::Relaxed) {
            denied(n);
            return std::ptr::null_mut();
        }
        System.realloc(p, l, n)
    }
}

fn denied(size: usize) {
    ALLOC_MAX_SEEN.fetch_max(size, Ordering::Relaxed);
    let mut buf = [0u8; 64];
    let prefix = b"ALLOC-DENIED size=";
    let mut n = 0;
    for b in prefix {
        buf[n] = *b;
        n += 1;
    }
    let mut digits = [0u8; 24];
    let mut d = 0;
    let mut v = size;
    if v == 0 {
        digits[0] = b'0';
        d = 1;
    }
    while v > 0 {
        digits[d] = b'0' + (v % 10) as u8;
        v /= 10;
        d += 1;
    }
    while d > 0 {
        d -= 1;
        buf[n] = digits[d];
        n += 1;
    }
    buf[n] = b'\n';
    n += 1;
    unsafe {
        libc::write(2, buf.as_ptr() as *const libc::c_void, n);
    }
}

#[global_allocator]
static GLOBAL: CapAlloc = CapAlloc;

pub fn set_alloc_cap(bytes: usize) {
    ALLOC_CAP.store(bytes, Ordering::Relaxed);
}

fn seed_from_env() -> u64 {
    std::env::var("VERIF_SEED").ok().and_then(|s| s.trim().parse::<u64>().ok()).unwrap_or(1)
}

fn main() {
    let args: Vec<String> = std::env::args().collect();
    let code = match args.get(1).map(|s| s.as_str()) {
        Some("run") => {
            let prop = args.get(2).cloned().unwrap_or_default();
            let tier = args.get(3).cloned().or_else(|| std::env::var("VERIF_TIER").ok()).unwrap_or_else(|| "quick".into());
            let seed = seed_from_env();
            sup::check_main(&prop, tier == "thorough", seed)
        }
        Some("worker") => {
            let prop = args.get(2).cloned().unwrap_or_default();
            let thorough = args.get(3).map(|s| s == "thorough").unwrap_or(false);
            let seed: u64 = args.get(4).and_then(|s| s.parse().ok()).unwrap_or(1);
            let from: u64 = args.get(5).and_then(|s| s.parse().ok()).unwrap_or(0);
            let to: u64 = args.get(6).and_then(|s| s.parse().ok()).unwrap_or(0);
            let careful = args.get(7).map(|s| s == "careful").unwrap_or(false);
            sup::worker_main(&prop, thorough, seed, from, to, careful)
        }
        Some("exec-one") => {
            let prop = args.get(2).cloned().unwrap_or_default();
            let verbose = args.get(3).map(|s| s == "verbose").unwrap_or(false);
            sup::exec_one_main(&prop, verbose)
        }
        Some("replay") => {
            let path = args.get(2).cloned().unwrap_or_default();
            let verbose = args.get(3).map(|s| s == "verbose").unwrap_or(false);
            sup::replay_main(&path, verbose)
        }
        Some("gen") => {
            let prop = args.get(2).cloned().unwrap_or_default();
            let thorough = args.get(3).map(|s| s == "thorough").unwrap_or(false);
            let idx: u64 = args.get(4).and_then(|s| s.parse().ok()).unwrap_or(0);
            match engine::engine_for(&prop) {
                Some(e) => {
                    println!("{}", serde_json::to_string_pretty(&e.gen(&prop, thorough, seed_from_env(), idx)).unwrap());
                    0
                }
                None => 2,
            }
        }
        _ => {
            eprintln!("usage: axsim run <PROP> [quick|thorough] | replay <file> [verbose] | gen <PROP> <tier> <idx>");
            2
        }
    };
    std::process::exit(code);
}
