//! Native hook trampolines. ax wants `&'static dyn Fn`; the harness provides a fixed table of
//! non-capturing functions, each forwarding its index to a thread-local dispatcher that the
//! simulated host installs for the machine it is currently driving.

use std::cell::RefCell;
use std::error::Error;

use ax_x86::auto::generated::SupportedMnemonic;
use ax_x86::axecutor::Axecutor;
use ax_x86::state::hooks::{HookResult, RustCallbackFunction};
use iced_x86::Mnemonic;

pub type Dispatch = Box<dyn FnMut(usize, &mut Axecutor, SupportedMnemonic) -> Result<HookResult, Box<dyn Error>>>;

thread_local! {
    static DISPATCH: RefCell<Option<Dispatch>> = RefCell::new(None);
}

pub fn set_dispatch(d: Option<Dispatch>) {
    DISPATCH.with(|x| *x.borrow_mut() = d);
}

fn tramp<const ID: usize>(ax: &mut Axecutor, m: SupportedMnemonic) -> Result<HookResult, Box<dyn Error>> {
    // take the dispatcher out while it runs so that a (never expected) nested invocation is visible
    let d = DISPATCH.with(|x| x.borrow_mut().take());
    match d {
        Some(mut f) => {
            let r = f(ID, ax, m);
            DISPATCH.with(|x| *x.borrow_mut() = Some(f));
            r
        }
        None => Ok(HookResult::Unhandled),
    }
}

thread_local! {
    static FOREIGN_CALLS: std::cell::Cell<u64> = std::cell::Cell::new(0);
}

/// a hook that is only ever registered on *another* machine (a clone the host set aside): it must never run
/// on the machine under test
fn tramp_foreign(_ax: &mut Axecutor, _m: SupportedMnemonic) -> Result<HookResult, Box<dyn Error>> {
    FOREIGN_CALLS.with(|c| c.set(c.get() + 1));
    Ok(HookResult::Unhandled)
}

pub fn foreign_ref() -> &'static RustCallbackFunction {
    let r: &'static RustCallbackFunction = &tramp_foreign;
    r
}

pub fn take_foreign_calls() -> u64 {
    FOREIGN_CALLS.with(|c| c.replace(0))
}

pub const MAX_HOOKS: usize = 64;

macro_rules! tramp_table {
    ($id:expr; $($n:literal)*) => {
        match $id {
            $( $n => { let r: &'static RustCallbackFunction = &tramp::<$n>; r } )*
            _ => { let r: &'static RustCallbackFunction = &tramp::<0>; r }
        }
    };
}

pub fn tramp_ref(id: usize) -> &'static RustCallbackFunction {
    tramp_table!(id; 0 1 2 3 4 5 6 7 8 9 10 11 12 13 14 15 16 17 18 19 20 21 22 23 24 25 26 27 28 29 30 31
        32 33 34 35 36 37 38 39 40 41 42 43 44 45 46 47 48 49 50 51 52 53 54 55 56 57 58 59 60 61 62 63)
}

/// SupportedMnemonic for an iced mnemonic (None if ax does not dispatch it).
pub fn supported(m: Mnemonic) -> Option<SupportedMnemonic> {
    use std::convert::TryFrom;
    crate::common::catch(|| SupportedMnemonic::try_from(m).ok()).ok().flatten()
}

/// SupportedMnemonic by its name ("Mov", "Syscall", ...).
pub fn supported_by_name(name: &str) -> Option<(Mnemonic, SupportedMnemonic)> {
    for m in Mnemonic::values() {
        if format!("{m:?}") == name {
            return supported(m).map(|s| (m, s));
        }
    }
    None
}
