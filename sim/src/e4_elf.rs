//! ELF64 image builder (well-formed static executables from a spec), header locator for
//! arbitrary images, and the storage-fault mutations (truncate, field values, bit flips, splices).

use serde::{Deserialize, Serialize};

use crate::rng::Rng;

pub const BUNDLED: [(&str, &[u8]); 8] = [
    ("alphabet", include_bytes!("../../data/bins/alphabet.bin")),
    ("args", include_bytes!("../../data/bins/args.bin")),
    ("c_loop", include_bytes!("../../data/bins/c_loop.bin")),
    ("exit_c", include_bytes!("../../data/bins/exit_c.bin")),
    ("exit_c_no_symbols", include_bytes!("../../data/bins/exit_c_no_symbols.bin")),
    ("fib_c_nostdlib", include_bytes!("../../data/bins/fib_c_nostdlib.bin")),
    ("hello_world", include_bytes!("../../data/bins/hello_world.bin")),
    ("trace", include_bytes!("../../data/bins/trace.bin")),
];

pub fn bundled(name: &str) -> Option<&'static [u8]> {
    BUNDLED.iter().find(|b| b.0 == name).map(|b| b.1)
}

#[derive(Serialize, Deserialize, Clone, Debug, PartialEq)]
pub struct SegSpec {
    pub vaddr: u64,
    pub filesz: u64,
    pub memsz: u64,
    pub flags: u32, // PF_X=1 PF_W=2 PF_R=4
    pub seed: u64,
    /// explicit contents (hex) instead of the seeded fill
    #[serde(default)]
    pub data: Option<String>,
}

#[derive(Serialize, Deserialize, Clone, Debug, PartialEq)]
pub struct ExtraPh {
    pub p_type: u32,
    pub flags: u32,
    /// Some(i): lies inside load segment i (as linkers emit PT_NOTE etc.); None: vaddr 0
    pub inside: Option<usize>,
    pub off: u64,
    pub len: u64,
}

#[derive(Serialize, Deserialize, Clone, Debug, PartialEq)]
pub struct SymSpec {
    pub name: Option<String>,
    pub seg: usize,
    pub off: u64,
    pub defined: bool,
    /// st_info (binding << 4 | type); None: GLOBAL FUNC
    #[serde(default)]
    pub info: Option<u8>,
}

#[derive(Serialize, Deserialize, Clone, Debug, PartialEq)]
pub struct ImgSpec {
    pub segs: Vec<SegSpec>,
    /// order of program headers: indexes < segs.len() are load segments, the rest extras
    pub ph_order: Vec<usize>,
    /// order of the segments' data in the file
    pub file_order: Vec<usize>,
    pub extras: Vec<ExtraPh>,
    pub entry_seg: usize,
    pub entry_off: u64,
    pub syms: Vec<SymSpec>,
    pub sections: bool,
    /// bytes placed at the entry point (observer code for C17), hex
    pub entry_code: String,
}

fn put16(v: &mut Vec<u8>, x: u16) {
    v.extend_from_slice(&x.to_le_bytes());
}
fn put32(v: &mut Vec<u8>, x: u32) {
    v.extend_from_slice(&x.to_le_bytes());
}
fn put64(v: &mut Vec<u8>, x: u64) {
    v.extend_from_slice(&x.to_le_bytes());
}

pub struct Built {
    pub bytes: Vec<u8>,
    pub seg_off: Vec<u64>, // file offset of each load segment's data
    pub entry: u64,
}

pub fn seg_bytes(s: &SegSpec) -> Vec<u8> {
    if let Some(d) = &s.data {
        let mut b = crate::common::from_hex(d);
        b.resize(s.filesz as usize, 0x90);
        return b;
    }
    let mut r = Rng::new(s.seed);
    let mut b = r.bytes(s.filesz as usize);
    // never all-zero so that "file bytes appear" is distinguishable from "zero fill"
    for x in b.iter_mut() {
        if *x == 0 {
            *x = 0xA5;
        }
    }
    b
}

pub fn build(spec: &ImgSpec) -> Built {
    let nph = spec.ph_order.len();
    let mut seg_off = vec![0u64; spec.segs.len()];
    let mut data: Vec<u8> = Vec::new();
    let data_base = 64 + 56 * nph as u64;
    let entry_code = crate::common::from_hex(&spec.entry_code);
    let mut seg_data: Vec<Vec<u8>> = spec.segs.iter().map(seg_bytes).collect();
    if !entry_code.is_empty() && spec.entry_seg < seg_data.len() {
        let d = &mut seg_data[spec.entry_seg];
        let o = spec.entry_off as usize;
        if o + entry_code.len() <= d.len() {
            d[o..o + entry_code.len()].copy_from_slice(&entry_code);
        }
    }
    for i in spec.file_order.iter() {
        while (data_base + data.len() as u64) % 16 != 0 {
            data.push(0);
        }
        seg_off[*i] = data_base + data.len() as u64;
        data.extend_from_slice(&seg_data[*i]);
    }
    // string table and symbol table
    let mut strtab: Vec<u8> = vec![0];
    let mut symtab: Vec<u8> = vec![0; 24];
    for s in spec.syms.iter() {
        let name_off = match &s.name {
            Some(n) => {
                let o = strtab.len() as u32;
                strtab.extend_from_slice(n.as_bytes());
                strtab.push(0);
                o
            }
            None => 0,
        };
        let value = spec.segs.get(s.seg).map(|g| g.vaddr + s.off).unwrap_or(0);
        put32(&mut symtab, name_off);
        symtab.push(s.info.unwrap_or(0x12)); // default: GLOBAL FUNC
        symtab.push(0);
        put16(&mut symtab, if s.defined { 1 } else { 0 });
        put64(&mut symtab, value);
        put64(&mut symtab, 0);
    }
    let shstr: &[u8] = b"\0.text\0.symtab\0.strtab\0.shstrtab\0";
    while (data_base + data.len() as u64) % 8 != 0 {
        data.push(0);
    }
    let strtab_off = data_base + data.len() as u64;
    data.extend_from_slice(&strtab);
    while (data_base + data.len() as u64) % 8 != 0 {
        data.push(0);
    }
    let symtab_off = data_base + data.len() as u64;
    data.extend_from_slice(&symtab);
    let shstr_off = data_base + data.len() as u64;
    data.extend_from_slice(shstr);
    while (data_base + data.len() as u64) % 8 != 0 {
        data.push(0);
    }
    let sh_off = data_base + data.len() as u64;
    let entry = spec.segs.get(spec.entry_seg).map(|g| g.vaddr + spec.entry_off).unwrap_or(0);

    let mut out: Vec<u8> = Vec::new();
    out.extend_from_slice(&[0x7f, b'E', b'L', b'F', 2, 1, 1, 0, 0, 0, 0, 0, 0, 0, 0, 0]);
    put16(&mut out, 2); // ET_EXEC
    put16(&mut out, 62); // EM_X86_64
    put32(&mut out, 1);
    put64(&mut out, entry);
    put64(&mut out, 64);
    put64(&mut out, if spec.sections { sh_off } else { 0 });
    put32(&mut out, 0);
    put16(&mut out, 64);
    put16(&mut out, 56);
    put16(&mut out, nph as u16);
    put16(&mut out, 64);
    put16(&mut out, if spec.sections { 5 } else { 0 });
    put16(&mut out, if spec.sections { 4 } else { 0 });
    for idx in spec.ph_order.iter() {
        if *idx < spec.segs.len() {
            let s = &spec.segs[*idx];
            put32(&mut out, 1);
            put32(&mut out, s.flags);
            put64(&mut out, seg_off[*idx]);
            put64(&mut out, s.vaddr);
            put64(&mut out, s.vaddr);
            put64(&mut out, s.filesz);
            put64(&mut out, s.memsz);
            put64(&mut out, 0x1000);
        } else {
            let e = &spec.extras[*idx - spec.segs.len()];
            let (off, vaddr) = match e.inside {
                Some(i) if i < spec.segs.len() => (seg_off[i] + e.off, spec.segs[i].vaddr + e.off),
                _ => (0, 0),
            };
            put32(&mut out, e.p_type);
            put32(&mut out, e.flags);
            put64(&mut out, off);
            put64(&mut out, vaddr);
            put64(&mut out, vaddr);
            // file size: never more than the enclosing segment has in the file (a RELRO range may cover bss)
            let in_file = match e.inside {
                Some(i) if i < spec.segs.len() => e.len.min(spec.segs[i].filesz.saturating_sub(e.off)),
                _ => e.len,
            };
            put64(&mut out, in_file);
            put64(&mut out, e.len);
            put64(&mut out, 8);
        }
    }
    out.extend_from_slice(&data);
    if spec.sections {
        let sh = |out: &mut Vec<u8>, name: u32, ty: u32, flags: u64, addr: u64, off: u64, size: u64, link: u32, info: u32, ent: u64| {
            put32(out, name);
            put32(out, ty);
            put64(out, flags);
            put64(out, addr);
            put64(out, off);
            put64(out, size);
            put32(out, link);
            put32(out, info);
            put64(out, 8);
            put64(out, ent);
        };
        sh(&mut out, 0, 0, 0, 0, 0, 0, 0, 0, 0);
        let t = spec.segs.get(spec.entry_seg);
        sh(&mut out, 1, 1, 6, t.map(|s| s.vaddr).unwrap_or(0), t.map(|_| seg_off[spec.entry_seg]).unwrap_or(0), t.map(|s| s.filesz).unwrap_or(0), 0, 0, 0);
        sh(&mut out, 7, 2, 0, 0, symtab_off, symtab.len() as u64, 3, 1, 24);
        sh(&mut out, 15, 3, 0, 0, strtab_off, strtab.len() as u64, 0, 0, 0);
        sh(&mut out, 23, 3, 0, 0, shstr_off, shstr.len() as u64, 0, 0, 0);
    }
    Built { bytes: out, seg_off, entry }
}

// ------------------------------------------------------------------------------------------
// header locator and mutations
// ------------------------------------------------------------------------------------------

fn rd(b: &[u8], off: u64, size: u64) -> u64 {
    let mut v = 0u64;
    for k in 0..size {
        let i = (off + k) as usize;
        if i < b.len() {
            v |= (b[i] as u64) << (8 * k);
        }
    }
    v
}

fn wr(b: &mut [u8], off: u64, size: u64, v: u64) -> bool {
    if off.checked_add(size).map(|e| e as usize > b.len()).unwrap_or(true) {
        return false;
    }
    for k in 0..size {
        b[(off + k) as usize] = (v >> (8 * k)) as u8;
    }
    true
}

pub const E_FIELDS: [(&str, u64, u64); 16] = [
    ("ei_class", 4, 1), ("ei_data", 5, 1), ("ei_version", 6, 1), ("e_type", 16, 2), ("e_machine", 18, 2), ("e_version", 20, 4), ("e_entry", 24, 8),
    ("e_phoff", 32, 8), ("e_shoff", 40, 8), ("e_ehsize", 52, 2), ("e_phentsize", 54, 2), ("e_phnum", 56, 2), ("e_shentsize", 58, 2), ("e_shnum", 60, 2),
    ("e_shstrndx", 62, 2), ("e_flags", 48, 4),
];
pub const P_FIELDS: [(&str, u64, u64); 8] = [("p_type", 0, 4), ("p_flags", 4, 4), ("p_offset", 8, 8), ("p_vaddr", 16, 8), ("p_paddr", 24, 8), ("p_filesz", 32, 8), ("p_memsz", 40, 8), ("p_align", 48, 8)];
pub const S_FIELDS: [(&str, u64, u64); 7] = [("sh_name", 0, 4), ("sh_type", 4, 4), ("sh_offset", 24, 8), ("sh_size", 32, 8), ("sh_link", 40, 4), ("sh_info", 44, 4), ("sh_entsize", 56, 8)];
pub const Y_FIELDS: [(&str, u64, u64); 4] = [("st_name", 0, 4), ("st_info", 4, 1), ("st_shndx", 6, 2), ("st_value", 8, 8)];

pub struct Hdrs {
    pub phoff: u64,
    pub phnum: u64,
    pub shoff: u64,
    pub shnum: u64,
    pub symoff: u64,
    pub symnum: u64,
}

pub fn locate(b: &[u8]) -> Hdrs {
    let phoff = rd(b, 32, 8);
    let phnum = rd(b, 56, 2).min(64);
    let shoff = rd(b, 40, 8);
    let shnum = rd(b, 60, 2).min(128);
    let mut symoff = 0;
    let mut symnum = 0;
    if shoff != 0 {
        for j in 0..shnum {
            let o = shoff + 64 * j;
            if rd(b, o + 4, 4) == 2 {
                symoff = rd(b, o + 24, 8);
                symnum = (rd(b, o + 32, 8) / 24).min(64);
            }
        }
    }
    Hdrs { phoff, phnum, shoff, shnum, symoff, symnum }
}

#[derive(Serialize, Deserialize, Clone, Debug, PartialEq)]
#[serde(tag = "m")]
pub enum Mutation {
    Truncate { len: u64 },
    /// table: e (ELF header) | p (program header idx) | s (section header idx) | y (symbol idx)
    Field { table: String, idx: u64, field: String, value: u64 },
    BitFlip { offset: u64, bit: u32 },
    Burst { offset: u64, len: u64, seed: u64 },
    Splice { other: String, at: u64 },
}

pub fn field_loc(b: &[u8], table: &str, idx: u64, field: &str) -> Option<(u64, u64)> {
    let h = locate(b);
    match table {
        "e" => E_FIELDS.iter().find(|f| f.0 == field).map(|f| (f.1, f.2)),
        "p" => P_FIELDS.iter().find(|f| f.0 == field).map(|f| (h.phoff.wrapping_add(56 * idx).wrapping_add(f.1), f.2)),
        "s" => S_FIELDS.iter().find(|f| f.0 == field).map(|f| (h.shoff.wrapping_add(64 * idx).wrapping_add(f.1), f.2)),
        _ => Y_FIELDS.iter().find(|f| f.0 == field).map(|f| (h.symoff.wrapping_add(24 * idx).wrapping_add(f.1), f.2)),
    }
}

/// apply a mutation; returns false if it did not change anything (out of range)
pub fn apply(b: &mut Vec<u8>, m: &Mutation) -> bool {
    match m {
        Mutation::Truncate { len } => {
            if (*len as usize) < b.len() {
                b.truncate(*len as usize);
                true
            } else {
                false
            }
        }
        Mutation::Field { table, idx, field, value } => match field_loc(b, table, *idx, field) {
            Some((off, size)) => {
                let v = if size == 8 { *value } else { *value & ((1u64 << (8 * size)) - 1) };
                let old = rd(b, off, size);
                wr(b, off, size, v) && old != v
            }
            None => false,
        },
        Mutation::BitFlip { offset, bit } => {
            if (*offset as usize) < b.len() {
                b[*offset as usize] ^= 1 << (bit % 8);
                true
            } else {
                false
            }
        }
        Mutation::Burst { offset, len, seed } => {
            let mut r = Rng::new(*seed);
            let mut changed = false;
            for k in 0..*len {
                let i = (*offset + k) as usize;
                if i < b.len() {
                    b[i] = r.next() as u8;
                    changed = true;
                }
            }
            changed
        }
        Mutation::Splice { other, at } => {
            if let Some(o) = bundled(other) {
                let at = (*at as usize).min(b.len());
                b.truncate(at);
                if at < o.len() {
                    b.extend_from_slice(&o[at..]);
                }
                true
            } else {
                false
            }
        }
    }
}

pub fn value_class(v: u64, file_len: u64) -> &'static str {
    if v == 0 {
        "zero"
    } else if v == u64::MAX {
        "max"
    } else if v >= (1u64 << 40) {
        "huge"
    } else if v >= (1u64 << 31) {
        "over_2g"
    } else if v + 2 >= file_len && v <= file_len + 2 {
        "near_file_size"
    } else if v > file_len {
        "beyond_file"
    } else {
        "small"
    }
}

/// boundary values for a field whose current value is `cur`
pub fn boundary_values(cur: u64, file_len: u64, field: &str) -> Vec<u64> {
    let mut v = vec![
        0, 1, cur.wrapping_sub(1), cur.wrapping_add(1), file_len.wrapping_sub(1), file_len, file_len + 1, 0xfff, 0x1000, 0x1001,
        1 << 31, 1 << 32, 1 << 40, (1 << 63) - 1, 1 << 63, u64::MAX - 4095, u64::MAX,
    ];
    if field == "p_type" {
        v.extend_from_slice(&[2, 3, 4, 5, 6, 7, 0x6474_e550, 0x6474_e551, 0x6474_e552, 0x6474_e553, 0x7000_0000]);
    }
    v.dedup();
    v
}
