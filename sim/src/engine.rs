//! The interface every simulation engine implements, and the property -> engine table.

use serde_json::Value;

use crate::common::Ctx;

pub trait Engine: Sync {
    fn name(&self) -> &'static str;
    /// number of runs of the check for `prop` in this tier (a fixed number, never a time budget)
    fn runs(&self, prop: &str, thorough: bool) -> u64;
    /// scenario of run `idx`: everything the run needs, as data. Discrete axes are a function of
    /// `idx` only; `seed` varies the remaining values.
    fn gen(&self, prop: &str, thorough: bool, seed: u64, idx: u64) -> Value;
    /// execute a scenario against the real code, recording deviations / faults / probes / history
    fn exec(&self, prop: &str, sc: &Value, ctx: &mut Ctx);
    /// smaller variants of a scenario, most aggressive first
    fn shrink(&self, prop: &str, sc: &Value) -> Vec<Value>;
    /// value-free description of what the scenario does, used in the signature of a crash that
    /// kills the worker (abort, signal, watchdog)
    fn crash_context(&self, prop: &str, sc: &Value) -> String;
    /// what this engine runs for real and what is stubbed (for the evidence file)
    fn components(&self) -> (Vec<&'static str>, Vec<&'static str>);
    fn rule(&self, prop: &str) -> String;
    fn assumptions(&self, prop: &str) -> Vec<String>;
    fn level(&self, prop: &str) -> &'static str;
}

pub fn engine_for(prop: &str) -> Option<&'static dyn Engine> {
    match prop {
        "C07" | "C08" => Some(&crate::e1::E1),
        "C10" => Some(&crate::combo::C10),
        "C09" => Some(&crate::combo::C09),
        "C06" => Some(&crate::e5::E5),
        "C19" => Some(&crate::combo::C19),
        "C11" | "C12" | "C18" => Some(&crate::e2::E2),
        "C20" => Some(&crate::combo::C20),
        "C13" | "C14" => Some(&crate::e3::E3),
        "C15" | "C16" | "C17" => Some(&crate::e4::E4),
        _ => None,
    }
}

pub const COMMON_ASSUMPTIONS: [&str; 6] = [
    "release arithmetic profile (wrapping overflow, no debug_assert!) as in the shipped artefact",
    "fatal_error!/assert_fatal!/opcode_unimplemented! return Err as on wasm32 (hook H1)",
    "values of rand::thread_rng() served by the harness through the RNG seam (hook H4)",
    "native hooks only; the JS hook path and wasm-bindgen glue are not executed (no wasm32 target)",
    "iced-x86 1.21.0 is trusted as decoder/encoder and as the source of operand-access facts",
    "values, histories and schedules are sampled by seeded search, not enumerated; enumerated axes are listed in `rule`",
];
