//! E2 run-sim: one or more machines running a generated guest program under instrumented host
//! hooks, driven by a seeded scheduler (single steps, execute() bursts cut by limits, host
//! actions between steps). Serves C11, C12, C18, C20.
//!
//! This file: scenario format, generator, shrinker. Execution and oracles: e2_exec.rs.

use iced_x86::code_asm::*;
use iced_x86::{BlockEncoderOptions, Decoder, DecoderOptions, FlowControl, Instruction, InstructionInfoFactory, Register};
use serde::{Deserialize, Serialize};
use serde_json::Value;

use crate::common::{from_hex, to_hex, Ctx, GPR64_NAMES};
use crate::engine::Engine;
use crate::rng::{mix, Rng};

#[path = "e2_exec.rs"]
pub mod exec;

#[derive(Serialize, Deserialize, Clone, Debug, PartialEq)]
pub struct HookSpec {
    pub phase: String,    // "before" | "after"
    pub mnemonic: String, // SupportedMnemonic name
    /// answers by invocation index: U unhandled, H handled, S stop, E error, M mutate, R try to
    /// register from inside; beyond the script: U
    pub script: Vec<String>,
}

#[derive(Serialize, Deserialize, Clone, Debug, PartialEq)]
pub struct Action {
    /// applied once, between instructions, as soon as the executed-instruction count is >= at
    pub at: u64,
    /// register | handle_syscalls | render | prot
    pub kind: String,
    #[serde(default)]
    pub hook: Option<HookSpec>,
    #[serde(default)]
    pub area: u64,
    #[serde(default)]
    pub prot: u32,
}

#[derive(Serialize, Deserialize, Clone, Debug, PartialEq)]
pub struct DataArea {
    pub start: u64,
    pub len: u64,
    pub prot: u32,
}

#[derive(Serialize, Deserialize, Clone, Debug, PartialEq)]
pub struct Sc {
    pub flavour: String,
    pub code_start: u64,
    pub entry: u64,
    pub code: String,
    pub listing: Vec<String>,
    pub stack_len: Option<u64>,
    pub data: Vec<DataArea>,
    pub scratch: u64, // start of the 16-byte area only hooks write to (0 = none)
    pub regs: Vec<(String, u64)>,
    pub xregs: Vec<(u32, String)>,
    pub flags: u64,
    pub hooks: Vec<HookSpec>,
    pub late_hooks: Vec<HookSpec>, // registered one by one after failed steps / at the end
    pub actions: Vec<Action>,
    pub limit: Option<u64>,
    pub cuts: Vec<u64>,
    pub rng_a: u64,
    pub rng_b: u64,
    pub max_steps: u64,
    pub err_budget: u32,
    pub builtin_exit: bool,
    pub ending: String,
    /// non-empty: the machine is built by from_binary from an ELF image of the same program whose
    /// symbol table carries these (offset into the code, name) pairs - several names per address on purpose
    #[serde(default)]
    pub symbols: Vec<(u64, String)>,
    /// offsets of 32-bit immediates (of `mov r32, imm32`) that a hook answering "P" rewrites
    #[serde(default)]
    pub patch_slots: Vec<u64>,
}

pub struct E2Engine;
pub static E2: E2Engine = E2Engine;

pub const DATA_BASE: u64 = 0x20_0000;
pub const SCRATCH_BASE: u64 = 0x30_0000;

const POOL: [AsmRegister64; 12] = [rax, rbx, rcx, rdx, rsi, rdi, r8, r9, r10, r11, r14, rbp];
const POOL32: [AsmRegister32; 12] = [eax, ebx, ecx, edx, esi, edi, r8d, r9d, r10d, r11d, r14d, ebp];
const POOL8: [AsmRegister8; 12] = [al, bl, cl, dl, sil, dil, r8b, r9b, r10b, r11b, r14b, bpl];
const COUNTERS: [AsmRegister64; 2] = [r12, r13];

struct Gen<'a> {
    a: CodeAssembler,
    rng: &'a mut Rng,
    pool: Vec<usize>,
    has_stack: bool,
    data_len: u64, // 0 = no data area; base register for data is rbx-independent: absolute via r14? we use [abs] through a base loaded on demand
    funcs: Vec<CodeLabel>,
    n_funcs: usize,
    hooked_trap: Vec<&'static str>, // trap mnemonics that have a hook: "syscall", "int3", "int"
    flavour: &'a str,
    items: u32,
    loop_depth: usize,
    fault_store_target: u64,
}

type R = Result<(), IcedError>;

impl<'a> Gen<'a> {
    fn reg(&mut self) -> usize {
        *self.rng.pick(&self.pool)
    }

    fn imm(&mut self) -> u64 {
        match self.rng.below(6) {
            0 => 0,
            1 => 1,
            2 => self.rng.below(256),
            3 => 0xffff_ffff,
            4 => self.rng.next() & 0x7fff_ffff,
            _ => self.rng.next(),
        }
    }

    fn data_disp(&mut self, size: u64) -> u64 {
        let max = self.data_len.saturating_sub(size);
        let d = self.rng.below(max + 1);
        d & !(if self.rng.chance(1, 2) { 7 } else { 0 })
    }

    fn simple(&mut self) -> R {
        let d = self.reg();
        let s = self.reg();
        let (rd, rs) = (POOL[d], POOL[s]);
        let (rd32, rs32) = (POOL32[d], POOL32[s]);
        let w = if self.flavour == "c18" { 8 } else { 30 };
        match self.rng.below(w) {
            0 => {
                let v = self.imm();
                self.a.mov(rd, v)
            }
            1 => {
                let v = (self.imm() & 0x7fff_ffff) as u32;
                self.a.mov(rd32, v)
            }
            2 => self.a.mov(rd, rs),
            3 => self.a.add(rd, rs),
            4 => self.a.sub(rd, rs),
            5 => self.a.xor(rd, rs),
            6 => self.a.inc(rd),
            7 => self.a.dec(rd),
            8 => self.a.and(rd, rs),
            9 => {
                let v = self.rng.below(0x7fff_ffff) as i32;
                self.a.add(rd, v)
            }
            10 => {
                let v = self.rng.below(100) as i32;
                self.a.sub(rd32, v)
            }
            11 => self.a.cmp(rd, rs),
            12 => self.a.test(rd, rs),
            13 => self.a.lea(rd, qword_ptr(rs + 8)),
            14 => self.a.lea(rd, qword_ptr(rs + rs * 2 - 3)),
            15 => self.a.neg(rd),
            16 => self.a.not(rd32),
            17 => self.a.imul_2(rd, rs),
            18 => {
                let c = 2 + self.rng.below(20) as u32;
                self.a.shl(rd, c)
            }
            19 => {
                let c = 2 + self.rng.below(20) as u32;
                self.a.shr(rd32, c)
            }
            20 => self.a.movzx(rd32, POOL8[s]),
            21 => self.a.sete(POOL8[d]),
            22 => self.a.cmovne(rd, rs),
            23 => self.a.adc(rd, rs),
            24 => self.a.mov(rd32, rs32),
            25 => self.a.xor(rd32, rd32),
            26 => self.a.movsxd(rd, rs32),
            27 => self.a.nop(),
            28 => self.a.cld(),
            _ => self.a.add(POOL8[d], POOL8[s]),
        }
    }

    fn mem_access(&mut self) -> R {
        if self.data_len < 16 {
            return self.simple();
        }
        let b = self.reg();
        let v = self.reg();
        let base = POOL[b];
        self.a.mov(base, DATA_BASE)?;
        let disp = self.data_disp(8) as i32;
        match self.rng.below(6) {
            0 => self.a.mov(qword_ptr(base + disp), POOL[v]),
            1 => self.a.mov(POOL[v], qword_ptr(base + disp)),
            2 => self.a.mov(dword_ptr(base + disp), POOL32[v]),
            3 => self.a.add(qword_ptr(base + disp), POOL[v]),
            4 => self.a.mov(POOL32[v], dword_ptr(base + disp)),
            _ => self.a.inc(qword_ptr(base + disp)),
        }
    }

    fn cond_jump(&mut self, l: CodeLabel) -> R {
        match self.rng.below(18) {
            0 => self.a.je(l),
            1 => self.a.jne(l),
            2 => self.a.ja(l),
            3 => self.a.jae(l),
            4 => self.a.jb(l),
            5 => self.a.jbe(l),
            6 => self.a.jg(l),
            7 => self.a.jge(l),
            8 => self.a.jl(l),
            9 => self.a.jle(l),
            10 => self.a.jo(l),
            11 => self.a.jno(l),
            12 => self.a.js(l),
            13 => self.a.jns(l),
            14 => self.a.jp(l),
            15 => self.a.jnp(l),
            16 => self.a.jrcxz(l),
            _ => self.a.jecxz(l),
        }
    }

    fn if_block(&mut self, depth: u32) -> R {
        let x = self.reg();
        let y = self.reg();
        if self.rng.chance(1, 2) {
            self.a.cmp(POOL[x], POOL[y])?;
        } else {
            let v = self.rng.below(4) as i32;
            self.a.cmp(POOL32[x], v)?;
        }
        let mut l = self.a.create_label();
        self.cond_jump(l)?;
        let n = 1 + self.rng.below(3) as u32;
        self.block(depth + 1, n)?;
        self.a.set_label(&mut l)?;
        self.a.nop()
    }

    fn loop_block(&mut self, depth: u32) -> R {
        if self.loop_depth >= 2 {
            return self.simple();
        }
        let c = COUNTERS[self.loop_depth];
        self.loop_depth += 1;
        let n = 1 + self.rng.below(if self.flavour == "c18" { 12 } else { 5 });
        self.a.mov(c, n)?;
        let mut l = self.a.create_label();
        self.a.set_label(&mut l)?;
        let body = self.rng.below(3) as u32;
        if body == 0 {
            self.a.nop()?;
        } else {
            self.block(depth + 1, body)?;
        }
        self.a.dec(c)?;
        self.a.jne(l)?;
        self.loop_depth -= 1;
        Ok(())
    }

    /// a loop whose back edge is taken alternately from two different instructions: consecutive trace
    /// entries with the same target but different sources (must not be collapsed into one count), and
    /// consecutive repetitions of one jump when the counter parity stays (must be collapsed)
    fn alternating_back_edges(&mut self) -> R {
        if self.loop_depth >= 2 {
            return self.simple();
        }
        let c = COUNTERS[self.loop_depth];
        self.loop_depth += 1;
        let n = 2 + self.rng.below(6);
        self.a.mov(c, n)?;
        let mut top = self.a.create_label();
        let mut via = self.a.create_label();
        let mut end = self.a.create_label();
        self.a.set_label(&mut top)?;
        self.a.nop()?;
        self.a.dec(c)?;
        self.a.je(end)?;
        if self.rng.chance(2, 3) {
            self.a.test(c, 1)?;
        } else {
            self.a.test(c, 2)?;
        }
        self.a.jne(via)?;
        self.a.jmp(top)?;
        self.a.set_label(&mut via)?;
        self.a.jmp(top)?;
        self.a.set_label(&mut end)?;
        self.a.nop()?;
        self.loop_depth -= 1;
        Ok(())
    }

    /// one indirect jump executed twice in a row with different targets (the first target lies before
    /// the jump and falls through into it again): consecutive entries with one source and two targets
    fn redirected_indirect_jump(&mut self) -> R {
        let r = self.reg();
        let mut first = self.a.create_label();
        let mut a_lbl = self.a.create_label();
        let mut b_lbl = self.a.create_label();
        self.a.lea(POOL[r], ptr(a_lbl))?;
        self.a.jmp(first)?;
        self.a.set_label(&mut a_lbl)?;
        self.a.lea(POOL[r], ptr(b_lbl))?;
        self.a.set_label(&mut first)?;
        self.a.jmp(POOL[r])?;
        self.a.set_label(&mut b_lbl)?;
        self.a.nop()
    }

    /// a call to a stub that consists of one jump through memory (a PLT entry): the instruction at the called
    /// address is itself a transfer, through a slot the program filled in before
    fn stub_call(&mut self) -> R {
        if !self.has_stack || self.data_len < 16 {
            return self.simple();
        }
        let r = self.reg();
        let mut b = self.reg();
        if b == r {
            b = self.pool[(self.pool.iter().position(|x| *x == r).unwrap() + 1) % self.pool.len()];
        }
        if b == r {
            return self.simple();
        }
        let disp = (self.data_disp(8) & !7) as i32;
        let mut stub = self.a.create_label();
        let mut real = self.a.create_label();
        let mut after = self.a.create_label();
        self.a.lea(POOL[r], ptr(real))?;
        self.a.mov(POOL[b], DATA_BASE)?;
        self.a.mov(qword_ptr(POOL[b] + disp), POOL[r])?;
        self.a.call(stub)?;
        self.a.jmp(after)?;
        self.a.set_label(&mut stub)?;
        if self.rng.chance(1, 2) {
            self.a.jmp(qword_ptr(POOL[b] + disp))?;
        } else {
            self.a.jmp(qword_ptr(DATA_BASE + disp as u64))?;
        }
        self.a.set_label(&mut real)?;
        self.a.nop()?;
        if self.rng.chance(1, 3) {
            // the stub is entered a second time from inside the function it leads to? no: keep it a leaf
            self.a.nop()?;
        }
        self.a.ret()?;
        self.a.set_label(&mut after)?;
        self.a.nop()
    }

    fn call_item(&mut self, from_func: Option<usize>) -> R {
        if !self.has_stack || self.n_funcs == 0 {
            return self.simple();
        }
        let lo = match from_func {
            Some(k) => k + 1,
            None => 0,
        };
        if lo >= self.n_funcs {
            return self.simple();
        }
        let k = lo + self.rng.usize(self.n_funcs - lo);
        let target = self.funcs[k];
        match self.rng.below(4) {
            0 | 1 => self.a.call(target),
            2 => {
                let r = self.reg();
                self.a.lea(POOL[r], ptr(target))?;
                self.a.call(POOL[r])
            }
            _ => {
                if self.data_len < 16 {
                    return self.a.call(target);
                }
                let r = self.reg();
                let mut b = self.reg();
                if b == r {
                    b = self.pool[(self.pool.iter().position(|x| *x == r).unwrap() + 1) % self.pool.len()];
                }
                if b == r {
                    return self.a.call(target);
                }
                let disp = (self.data_disp(8) & !7) as i32;
                self.a.lea(POOL[r], ptr(target))?;
                self.a.mov(POOL[b], DATA_BASE)?;
                self.a.mov(qword_ptr(POOL[b] + disp), POOL[r])?;
                self.a.call(qword_ptr(POOL[b] + disp))
            }
        }
    }

    fn jump_item(&mut self) -> R {
        let mut l = self.a.create_label();
        match self.rng.below(4) {
            0 | 1 => self.a.jmp(l)?,
            2 => {
                let r = self.reg();
                self.a.lea(POOL[r], ptr(l))?;
                self.a.jmp(POOL[r])?;
            }
            _ => {
                if self.data_len < 16 {
                    self.a.jmp(l)?;
                } else {
                    let r = self.reg();
                    let mut b = self.reg();
                    if b == r {
                        b = self.pool[(self.pool.iter().position(|x| *x == r).unwrap() + 1) % self.pool.len()];
                    }
                    if b == r {
                        self.a.jmp(l)?;
                    } else {
                        let disp = (self.data_disp(8) & !7) as i32;
                        self.a.lea(POOL[r], ptr(l))?;
                        self.a.mov(POOL[b], DATA_BASE)?;
                        self.a.mov(qword_ptr(POOL[b] + disp), POOL[r])?;
                        self.a.jmp(qword_ptr(POOL[b] + disp))?;
                    }
                }
            }
        }
        // dead code that is jumped over
        let dead = self.rng.below(3);
        for _ in 0..dead {
            self.a.int3()?;
        }
        self.a.set_label(&mut l)?;
        self.a.nop()
    }

    fn unmatched_return(&mut self) -> R {
        if !self.has_stack {
            return self.simple();
        }
        let mut l = self.a.create_label();
        let r = self.reg();
        self.a.lea(POOL[r], ptr(l))?;
        self.a.push(POOL[r])?;
        self.a.ret()?;
        self.a.set_label(&mut l)?;
        self.a.nop()
    }

    fn push_pop(&mut self) -> R {
        if !self.has_stack {
            return self.simple();
        }
        let x = self.reg();
        let y = self.reg();
        self.a.push(POOL[x])?;
        if self.rng.chance(1, 2) {
            self.simple()?;
        }
        self.a.pop(POOL[y])
    }

    fn trap(&mut self) -> R {
        // one trap in six is chosen whatever hooks exist: a trap nobody registered a hook for fails its step, and
        // the hooks registered for the *other* trap mnemonics have nothing to do with it
        let any = self.rng.chance(1, 6);
        if self.hooked_trap.is_empty() && !any {
            return self.a.nop();
        }
        let all = ["Syscall", "Int3", "Int"];
        match if any { *self.rng.pick(&all) } else { *self.rng.pick(&self.hooked_trap) } {
            "Syscall" => {
                if self.rng.chance(1, 2) {
                    // never 60 (exit) by accident: that is a separate ending
                    let v = self.rng.below(50);
                    self.a.mov(eax, v as u32)?;
                }
                self.a.syscall()
            }
            "Int3" => self.a.int3(),
            _ => self.a.int(0x80),
        }
    }

    fn item(&mut self, depth: u32, from_func: Option<usize>) -> R {
        self.items += 1;
        if self.items > 400 {
            return self.a.nop();
        }
        let weights: [u32; 12] = match self.flavour {
            "c18" => [10, 4, 12, 10, 14, 12, 8, 4, 4, 6, 6, 6],
            "c12" => [30, 8, 8, 6, 6, 4, 2, 6, 10, 1, 1, 1],
            _ => [30, 10, 8, 6, 6, 5, 2, 6, 4, 1, 1, 1],
        };
        let mut w = weights;
        if depth >= 3 {
            w[2] = 0;
            w[3] = 0;
            w[9] = 0;
        }
        match self.rng.weighted(&w) {
            0 => self.simple(),
            1 => self.mem_access(),
            2 => self.if_block(depth),
            3 => self.loop_block(depth),
            4 => self.call_item(from_func),
            5 => self.jump_item(),
            6 => self.unmatched_return(),
            7 => self.push_pop(),
            9 => self.alternating_back_edges(),
            10 => self.redirected_indirect_jump(),
            11 => self.stub_call(),
            _ => self.trap(),
        }
    }

    fn block(&mut self, depth: u32, n: u32) -> R {
        for _ in 0..n {
            self.item(depth, None)?;
        }
        Ok(())
    }
}

fn reg_name_of(r: Register) -> Option<&'static str> {
    let full = r.full_register();
    let n = format!("{full:?}");
    GPR64_NAMES.iter().find(|x| **x == n).copied()
}

/// Registers (GPR names, XMM indexes) any instruction in `code` mentions, explicitly or implicitly.
pub fn used_registers(code: &[u8], ip: u64) -> (Vec<&'static str>, Vec<u32>) {
    let mut dec = Decoder::with_ip(64, code, ip, DecoderOptions::NONE);
    let mut fac = InstructionInfoFactory::new();
    let mut g: Vec<&'static str> = Vec::new();
    let mut x: Vec<u32> = Vec::new();
    let mut ins = Instruction::default();
    while dec.can_decode() {
        dec.decode_out(&mut ins);
        if ins.is_invalid() {
            continue;
        }
        let info = fac.info(&ins);
        let mut regs: Vec<Register> = info.used_registers().iter().map(|u| u.register()).collect();
        for m in info.used_memory() {
            regs.push(m.base());
            regs.push(m.index());
        }
        for k in 0..ins.op_count() {
            if ins.op_kind(k) == iced_x86::OpKind::Register {
                regs.push(ins.op_register(k));
            }
        }
        for r in regs {
            if r == Register::None {
                continue;
            }
            if r.is_xmm() {
                let i = r.number() as u32;
                if !x.contains(&i) {
                    x.push(i);
                }
            } else if let Some(n) = reg_name_of(r) {
                if !g.contains(&n) {
                    g.push(n);
                }
            }
        }
    }
    g.sort();
    x.sort();
    (g, x)
}

pub fn listing(code: &[u8], ip: u64) -> Vec<String> {
    let mut dec = Decoder::with_ip(64, code, ip, DecoderOptions::NONE);
    let mut out = Vec::new();
    let mut ins = Instruction::default();
    while dec.can_decode() {
        dec.decode_out(&mut ins);
        out.push(format!("{:#x}: {}", ins.ip(), ins));
    }
    out
}

const HOOKABLE: [&str; 14] = ["Mov", "Add", "Nop", "Call", "Ret", "Jmp", "Jne", "Push", "Pop", "Cmp", "Dec", "Lea", "Sub", "Xor"];

fn gen_script(rng: &mut Rng, flavour: &str, stopper: bool) -> Vec<String> {
    let n = rng.below(8);
    let mut s = Vec::new();
    for _ in 0..n {
        let w: [u32; 6] = if flavour == "c12" { [40, 14, if stopper { 6 } else { 0 }, 10, 20, 6] } else { [70, 8, if stopper { 3 } else { 0 }, 4, 10, 2] };
        let a = ["U", "H", "S", "E", "M", "R"][rng.weighted(&w)];
        let a = if a == "R" && rng.chance(1, 3) { "RS" } else { a };
        let a = if a == "S" && rng.chance(1, 4) { *rng.pick(&["SE", "MS"]) } else { a };
        let a = if a == "M" && rng.chance(1, 3) { "P" } else { a };
        s.push(a.to_string());
    }
    s
}

fn gen_hook(rng: &mut Rng, flavour: &str, present: &[String], traps: &[&str], stopper: bool) -> HookSpec {
    let phase = if rng.chance(1, 2) { "before" } else { "after" };
    let mnemonic = match rng.below(10) {
        0 => rng.pick(&HOOKABLE).to_string(), // may be absent from the program
        1 | 2 if !traps.is_empty() => rng.pick(traps).to_string(),
        _ => {
            if present.is_empty() {
                "Nop".to_string()
            } else {
                rng.pick(present).clone()
            }
        }
    };
    HookSpec { phase: phase.to_string(), mnemonic, script: gen_script(rng, flavour, stopper) }
}

pub fn generate(prop: &str, thorough: bool, seed: u64, idx: u64) -> Sc {
    let flavour = match prop {
        "C11" => "c11",
        "C12" => "c12",
        "C18" => "c18",
        _ => "c20",
    };
    let mut rng = Rng::new(mix(seed, prop, idx));
    // swarm: per-run configuration
    let mut cfg = rng.fork("cfg");
    let has_stack = cfg.chance(9, 10);
    // lengths that are not a multiple of 16 too: where RSP starts (and so where a top-level RET finds the stack empty)
    // is the aligned top, not the end of the area
    let stack_len: u64 = *cfg.pick(&[64u64, 128, 256, 512, 1024, 4096, 100, 1000, 0x1008, 72, 250, 513]);
    let data_len: u64 = if cfg.chance(4, 5) { *cfg.pick(&[16u64, 64, 256, 512]) } else { 0 };
    let n_funcs = if has_stack { cfg.usize(4) } else { 0 };
    let pool_n = 3 + cfg.usize(6);
    let mut pool: Vec<usize> = (0..POOL.len()).collect();
    cfg.shuffle(&mut pool);
    pool.truncate(pool_n);
    pool.sort();
    let code_start = 0x10_0000 + cfg.below(64) * 0x1000 + if cfg.chance(1, 4) { cfg.below(0x800) } else { 0 };
    let ending = match cfg.below(20) {
        0..=10 => "end",
        11 | 12 | 13 => "top_ret",
        14 | 15 => "fault",
        16 => "exit",
        // the end of the code is reached by a taken branch / the last instruction is a branch taken backwards
        17 => "branch_to_end",
        18 => "backward_branch_last",
        _ => "end",
    };
    let strip_last = ending == "branch_to_end";
    let ending = if (ending == "top_ret") && !has_stack { "end" } else { ending };
    let n_traps = cfg.below(3);
    let mut traps: Vec<&'static str> = Vec::new();
    for _ in 0..n_traps {
        let t = *cfg.pick(&["Syscall", "Int3", "Int"]);
        if !traps.contains(&t) {
            traps.push(t);
        }
    }
    let builtin_exit = ending == "exit" || cfg.chance(1, 10);
    if builtin_exit && !traps.contains(&"Syscall") {
        traps.push("Syscall");
    }
    let main_items = if thorough { 4 + cfg.below(24) } else { 3 + cfg.below(14) } as u32;
    // rarely: nothing but a deep, fully unwound recursion (thousands of live frames)
    let deep: Option<u64> = if flavour == "c18" && cfg.chance(1, 300) { Some(*cfg.pick(&[300u64, 1200, 4200])) } else { None };

    // rarely: a long loop that takes two different jumps per iteration (nothing collapses), so that the trace grows
    // beyond 4096 entries without a call or return in between
    let long_alt: Option<u64> = if deep.is_none() && (flavour == "c18" || flavour == "c20") && cfg.chance(1, 400) { Some(*cfg.pick(&[2100u64, 2600])) } else { None };

    // ---- program ----
    let mut prng = rng.fork("program");
    let mut a = CodeAssembler::new(64).unwrap();
    let funcs: Vec<CodeLabel> = (0..n_funcs).map(|_| a.create_label()).collect();
    let mut g = Gen {
        a,
        rng: &mut prng,
        pool: pool.clone(),
        has_stack,
        data_len,
        funcs,
        n_funcs,
        hooked_trap: traps.clone(),
        flavour,
        items: 0,
        loop_depth: 0,
        fault_store_target: 0xdead_0000,
    };
    let mut main_l = g.a.create_label();
    let res: R = (|| {
        // functions first, main last (so that main can run into the end of the code)
        for k in 0..n_funcs {
            let mut l = g.funcs[k];
            g.a.set_label(&mut l)?;
            g.funcs[k] = l;
            let n = 1 + g.rng.below(4) as u32;
            for _ in 0..n {
                g.item(1, Some(k))?;
            }
            g.a.ret()?;
        }
        g.a.set_label(&mut main_l)?;
        g.a.nop()?;
        if let Some(n) = deep {
            let mut f = g.a.create_label();
            let mut out = g.a.create_label();
            let mut done = g.a.create_label();
            g.a.mov(r12, n)?;
            g.a.call(f)?;
            g.a.jmp(done)?;
            g.a.set_label(&mut f)?;
            g.a.dec(r12)?;
            g.a.je(out)?;
            g.a.call(f)?;
            g.a.set_label(&mut out)?;
            g.a.ret()?;
            g.a.set_label(&mut done)?;
            g.a.nop()?;
        }
        if let Some(n) = long_alt {
            let mut l = g.a.create_label();
            let mut a_lbl = g.a.create_label();
            g.a.mov(r12, n)?;
            g.a.set_label(&mut l)?;
            g.a.jmp(a_lbl)?;
            g.a.int3()?;
            g.a.set_label(&mut a_lbl)?;
            g.a.dec(r12)?;
            g.a.jne(l)?;
        }
        for _ in 0..(if deep.is_some() || long_alt.is_some() { 1 } else { main_items }) {
            g.item(0, None)?;
        }
        match ending {
            "top_ret" => {
                g.a.ret()?;
                let pad = g.rng.below(3);
                for _ in 0..pad {
                    g.a.nop()?;
                }
            }
            "exit" => {
                g.a.mov(eax, 60u32)?;
                g.a.syscall()?;
                g.a.nop()?;
            }
            "branch_to_end" => {
                // a taken branch whose target is exactly the end of the code (the NOP behind the label is cut off below)
                let mut end = g.a.create_label();
                match g.rng.below(5) {
                    0 => g.a.jmp(end)?,
                    1 => {
                        g.a.xor(ecx, ecx)?;
                        g.a.jrcxz(end)?;
                    }
                    2 => {
                        g.a.xor(ecx, ecx)?;
                        g.a.jecxz(end)?;
                    }
                    3 => {
                        g.a.cmp(eax, eax)?;
                        g.a.je(end)?;
                    }
                    _ => {
                        g.a.cmp(eax, eax)?;
                        g.a.jae(end)?;
                    }
                }
                let dead = g.rng.below(4);
                for _ in 0..dead {
                    g.a.int3()?;
                }
                g.a.set_label(&mut end)?;
                g.a.nop()?;
            }
            "backward_branch_last" => {
                // the last instruction of the code is a branch that is taken backwards once and falls
                // through - into the end of the code - the second time
                let mut body = g.a.create_label();
                let mut check = g.a.create_label();
                g.a.xor(ecx, ecx)?;
                g.a.jmp(check)?;
                g.a.set_label(&mut body)?;
                g.a.inc(ecx)?;
                g.a.set_label(&mut check)?;
                match g.rng.below(4) {
                    0 => g.a.jrcxz(body)?,
                    1 => g.a.jecxz(body)?,
                    2 => {
                        g.a.test(ecx, ecx)?;
                        g.a.je(body)?;
                    }
                    _ => {
                        g.a.cmp(ecx, 1)?;
                        g.a.jb(body)?;
                    }
                }
            }
            "fault" => match g.rng.below(5) {
                0 => {
                    let r = POOL[g.reg()];
                    g.a.mov(r, g.fault_store_target)?;
                    g.a.mov(qword_ptr(r), r)?;
                }
                1 => {
                    let r = POOL[g.reg()];
                    g.a.mov(r, 0xdead_0000u64)?;
                    g.a.jmp(r)?;
                }
                2 => {
                    g.a.int3()?;
                }
                3 => {
                    let r = POOL[g.reg()];
                    g.a.xor(ecx, ecx)?;
                    g.a.mov(r, 1u64)?;
                    g.a.div(ecx)?;
                }
                _ => {
                    if has_stack {
                        let r = POOL[g.reg()];
                        g.a.mov(r, 0xdead_0000u64)?;
                        g.a.push(r)?;
                        g.a.ret()?;
                    } else {
                        g.a.int1()?;
                    }
                }
            },
            _ => {}
        }
        Ok(())
    })();
    let mut a = g.a;
    let (code, entry) = match res.and_then(|_| a.assemble_options(code_start, BlockEncoderOptions::RETURN_NEW_INSTRUCTION_OFFSETS)) {
        Ok(r) => {
            let e = r.label_ip(&main_l).unwrap_or(code_start);
            let mut code = r.inner.code_buffer;
            if strip_last && code.last() == Some(&0x90) {
                code.pop();
            }
            (code, e)
        }
        Err(_) => (vec![0x90, 0x90], code_start),
    };

    // ---- explicit initial state ----
    let (gregs, xr) = used_registers(&code, code_start);
    let mut vr = rng.fork("values");
    let mut regs: Vec<(String, u64)> = Vec::new();
    for n in gregs.iter() {
        if *n == "RSP" && has_stack {
            continue;
        }
        if *n == "R15" {
            continue;
        }
        regs.push((n.to_string(), vr.interesting64()));
    }
    let xregs: Vec<(u32, String)> = xr.iter().map(|i| (*i, format!("{:032x}", ((vr.next() as u128) << 64) | vr.next() as u128))).collect();
    let flags: u64 = if vr.chance(1, 2) { 0 } else { vr.next() & 0x8d5 };

    // ---- hooks ----
    let mut hr = rng.fork("hooks");
    let mut present: Vec<String> = Vec::new();
    {
        let mut dec = Decoder::with_ip(64, &code, code_start, DecoderOptions::NONE);
        let mut ins = Instruction::default();
        while dec.can_decode() {
            dec.decode_out(&mut ins);
            let n = format!("{:?}", ins.mnemonic());
            if crate::hooks::supported(ins.mnemonic()).is_some() && !present.contains(&n) {
                present.push(n);
            }
        }
    }
    let n_hooks = match flavour {
        "c12" => 1 + hr.below(8),
        "c18" => hr.below(3),
        _ => hr.below(5),
    };
    let stopper = hr.chance(1, 3);
    let mut hooks: Vec<HookSpec> = Vec::new();
    // every trap the program may execute needs at least one hook to be executable
    for t in traps.iter() {
        if *t == "Syscall" && builtin_exit && hr.chance(1, 2) {
            continue;
        }
        hooks.push(HookSpec { phase: if hr.chance(1, 2) { "before" } else { "after" }.to_string(), mnemonic: t.to_string(), script: gen_script(&mut hr, flavour, stopper) });
    }
    for _ in 0..n_hooks {
        hooks.push(gen_hook(&mut hr, flavour, &present, &traps, stopper));
    }
    // several hooks on one mnemonic are the interesting case: duplicate some
    if flavour == "c12" && !hooks.is_empty() {
        let extra = hr.below(4);
        for _ in 0..extra {
            let mut h = hr.pick(&hooks).clone();
            if hr.chance(1, 2) {
                h.phase = if h.phase == "before" { "after".into() } else { "before".into() };
            }
            h.script = gen_script(&mut hr, flavour, stopper);
            hooks.push(h);
        }
    }
    hr.shuffle(&mut hooks);
    hooks.truncate(24);
    let n_late = hr.below(4);
    let late_hooks: Vec<HookSpec> = (0..n_late).map(|_| gen_hook(&mut hr, flavour, &present, &traps, false)).collect();

    // ---- schedule ----
    let mut sr = rng.fork("schedule");
    let approx_len = 10 + main_items as u64 * 6;
    let mut actions: Vec<Action> = Vec::new();
    if sr.chance(2, 5) {
        let n = 1 + sr.below(3);
        for _ in 0..n {
            let at = sr.below(approx_len);
            match sr.below(8) {
                // not in C11 runs: the three drivers are compared there, and the statement lists the finish causes
                6 if flavour != "c11" => actions.push(Action { at, kind: "stop".into(), hook: None, area: 0, prot: 0 }),
                7 if flavour != "c11" => actions.push(Action { at, kind: "clone_register".into(), hook: Some(gen_hook(&mut sr, flavour, &present, &traps, false)), area: 0, prot: 0 }),
                0 | 1 => actions.push(Action { at, kind: "register".into(), hook: Some(gen_hook(&mut sr, flavour, &present, &traps, stopper)), area: 0, prot: 0 }),
                2 => {
                    if sr.chance(1, 2) {
                        actions.push(Action { at, kind: "handle_syscalls".into(), hook: None, area: 0, prot: 0 })
                    } else {
                        actions.push(Action { at, kind: "resize_code".into(), hook: None, area: *sr.pick(&[0x10u64, 0x40, 0x100]), prot: 0 })
                    }
                }
                3 => actions.push(Action { at, kind: "render".into(), hook: None, area: 0, prot: 0 }),
                4 if has_stack => {
                    // the stack turns read-only (or inaccessible) mid-run: later PUSH / CALL fail at their store
                    actions.push(Action { at, kind: "prot".into(), hook: None, area: 1, prot: *sr.pick(&[1u32, 1, 0, 3]) })
                }
                _ => {
                    if data_len > 0 {
                        actions.push(Action { at, kind: "prot".into(), hook: None, area: DATA_BASE, prot: *sr.pick(&[0u32, 1, 2, 3, 1, 3]) })
                    } else {
                        actions.push(Action { at, kind: "render".into(), hook: None, area: 0, prot: 0 })
                    }
                }
            }
        }
        actions.sort_by_key(|a| a.at);
    }
    let limit = match sr.below(if flavour == "c11" { 3 } else { 8 }) {
        0 => Some(match sr.below(6) {
            0 => 0,
            1 => 1,
            2 => sr.below(approx_len * 2),
            3 => u64::MAX,
            _ => sr.below(approx_len),
        }),
        _ => None,
    };
    let n_cuts = sr.below(5);
    let mut cuts: Vec<u64> = (0..n_cuts).map(|_| sr.below(approx_len * 2)).collect();
    cuts.sort();
    cuts.dedup();

    // C20: a third of the runs load the program as an ELF image with aliased symbols at branch targets
    let mut symbols: Vec<(u64, String)> = Vec::new();
    if flavour == "c20" && sr.chance(1, 3) && code_start % 0x1000 == 0 {
        let mut targets: Vec<u64> = vec![entry - code_start];
        let mut dec = Decoder::with_ip(64, &code, code_start, DecoderOptions::NONE);
        let mut ins = Instruction::default();
        while dec.can_decode() {
            dec.decode_out(&mut ins);
            if matches!(ins.flow_control(), FlowControl::ConditionalBranch | FlowControl::UnconditionalBranch | FlowControl::Call) {
                let t = ins.near_branch_target();
                if t >= code_start && t < code_start + code.len() as u64 {
                    targets.push(t - code_start);
                }
            }
            targets.push(ins.next_ip() - code_start);
        }
        let n = 1 + sr.below(6);
        for k in 0..n {
            let off = *sr.pick(&targets);
            let names = 1 + sr.below(3);
            for j in 0..names {
                symbols.push((off, format!("s{k}_{j}_{}", sr.below(100))));
            }
        }
    }
    // immediates that hooks may rewrite while the program runs (self-modifying code through the host)
    let mut patch_slots: Vec<u64> = Vec::new();
    {
        let mut dec = Decoder::with_ip(64, &code, code_start, DecoderOptions::NONE);
        let mut ins = Instruction::default();
        while dec.can_decode() {
            let pos = dec.position();
            dec.decode_out(&mut ins);
            if ins.code() == iced_x86::Code::Mov_r32_imm32 && ins.len() >= 5 && patch_slots.len() < 6 {
                patch_slots.push((pos + ins.len() - 4) as u64);
            }
        }
    }
    let mut data = Vec::new();
    if data_len > 0 {
        data.push(DataArea { start: DATA_BASE, len: data_len, prot: 3 });
    }
    Sc {
        flavour: flavour.to_string(),
        code_start,
        entry,
        listing: listing(&code, code_start),
        code: to_hex(&code),
        stack_len: if let Some(n) = deep { Some(8 * n + 512) } else if has_stack { Some(stack_len) } else { None },
        data,
        scratch: if sr.chance(4, 5) { SCRATCH_BASE } else { 0 },
        regs,
        xregs,
        flags,
        hooks,
        late_hooks,
        actions,
        limit,
        cuts,
        rng_a: rng.fork("rng_a").next(),
        rng_b: rng.fork("rng_b").next(),
        max_steps: if let Some(n) = deep { 6 * n + 400 } else if let Some(n) = long_alt { 3 * n + 600 } else if thorough { 6000 } else { 3000 },
        err_budget: 1 + sr.below(4) as u32,
        builtin_exit,
        ending: ending.to_string(),
        symbols,
        patch_slots,
    }
}

/// Candidate reductions, most aggressive first.
pub fn shrink(sc: &Sc) -> Vec<Sc> {
    let mut out: Vec<Sc> = Vec::new();
    let code = from_hex(&sc.code);
    // instruction boundaries
    let mut bounds: Vec<(usize, usize)> = Vec::new();
    {
        let mut dec = Decoder::with_ip(64, &code, sc.code_start, DecoderOptions::NONE);
        let mut ins = Instruction::default();
        while dec.can_decode() {
            let pos = dec.position();
            dec.decode_out(&mut ins);
            bounds.push((pos, dec.position()));
        }
    }
    let is_nop = |c: &[u8], (a, b): (usize, usize)| c[a..b].iter().all(|x| *x == 0x90);
    let nop_range = |from: usize, to: usize| -> Option<Sc> {
        let mut c = code.clone();
        let mut changed = false;
        for k in from..to.min(bounds.len()) {
            if !is_nop(&c, bounds[k]) {
                for b in c[bounds[k].0..bounds[k].1].iter_mut() {
                    *b = 0x90;
                }
                changed = true;
            }
        }
        if !changed {
            return None;
        }
        let mut s = sc.clone();
        s.listing = listing(&c, sc.code_start);
        s.code = to_hex(&c);
        Some(s)
    };
    // lists first
    if !sc.hooks.is_empty() {
        let mut s = sc.clone();
        s.hooks.clear();
        out.push(s);
    }
    if !sc.actions.is_empty() {
        let mut s = sc.clone();
        s.actions.clear();
        out.push(s);
    }
    if !sc.late_hooks.is_empty() {
        let mut s = sc.clone();
        s.late_hooks.clear();
        out.push(s);
    }
    if !sc.cuts.is_empty() {
        let mut s = sc.clone();
        s.cuts.clear();
        out.push(s);
    }
    if sc.limit.is_some() {
        let mut s = sc.clone();
        s.limit = None;
        out.push(s);
    }
    if sc.builtin_exit {
        let mut s = sc.clone();
        s.builtin_exit = false;
        out.push(s);
    }
    for i in 0..sc.symbols.len() {
        let mut s = sc.clone();
        s.symbols.remove(i);
        if !s.symbols.is_empty() {
            out.push(s);
        }
    }
    // drop trailing NOPs (moves the end of the code), skip leading NOPs (moves the entry point)
    {
        let mut k = code.len();
        while k > 1 && code[k - 1] == 0x90 {
            k -= 1;
        }
        let entry_off = (sc.entry - sc.code_start) as usize;
        let keep = (k + 1).max(entry_off + 1).min(code.len());
        if keep < code.len() {
            let mut s = sc.clone();
            let c = code[..keep].to_vec();
            s.listing = listing(&c, sc.code_start);
            s.code = to_hex(&c);
            out.push(s);
        }
        let mut e = entry_off;
        while e + 1 < code.len() && code[e] == 0x90 && code[e + 1] == 0x90 {
            e += 1;
        }
        if e > entry_off {
            let mut s = sc.clone();
            s.entry = sc.code_start + e as u64;
            out.push(s);
        }
    }
    // halves / quarters / single instructions nopped out
    let n = bounds.len();
    let mut width = n / 2;
    while width >= 1 {
        let mut from = 0;
        while from < n {
            if let Some(s) = nop_range(from, from + width) {
                out.push(s);
            }
            from += width;
        }
        if width == 1 {
            break;
        }
        width /= 2;
    }
    for i in 0..sc.hooks.len() {
        let mut s = sc.clone();
        s.hooks.remove(i);
        out.push(s);
    }
    for i in 0..sc.hooks.len() {
        if !sc.hooks[i].script.is_empty() {
            let mut s = sc.clone();
            s.hooks[i].script.pop();
            out.push(s);
            for j in 0..sc.hooks[i].script.len() {
                if sc.hooks[i].script[j] != "U" {
                    let mut s = sc.clone();
                    s.hooks[i].script[j] = "U".into();
                    out.push(s);
                }
            }
        }
    }
    for i in 0..sc.actions.len() {
        let mut s = sc.clone();
        s.actions.remove(i);
        out.push(s);
    }
    for i in 0..sc.late_hooks.len() {
        let mut s = sc.clone();
        s.late_hooks.remove(i);
        out.push(s);
    }
    for i in 0..sc.cuts.len() {
        let mut s = sc.clone();
        s.cuts.remove(i);
        out.push(s);
    }
    for i in 0..sc.regs.len() {
        if sc.regs[i].1 != 0 {
            let mut s = sc.clone();
            s.regs[i].1 = 0;
            out.push(s);
        }
    }
    if sc.flags != 0 {
        let mut s = sc.clone();
        s.flags = 0;
        out.push(s);
    }
    if sc.scratch != 0 {
        let mut s = sc.clone();
        s.scratch = 0;
        out.push(s);
    }
    out
}

impl Engine for E2Engine {
    fn name(&self) -> &'static str {
        "E2 run-sim"
    }

    fn runs(&self, prop: &str, thorough: bool) -> u64 {
        let base = match prop {
            "C11" => 24_000,
            "C12" => 40_000,
            "C18" => 24_000,
            _ => 24_000,
        };
        if thorough {
            base * 25
        } else {
            base
        }
    }

    fn gen(&self, prop: &str, thorough: bool, seed: u64, idx: u64) -> Value {
        serde_json::to_value(generate(prop, thorough, seed, idx)).unwrap()
    }

    fn exec(&self, prop: &str, sc: &Value, ctx: &mut Ctx) {
        match serde_json::from_value::<Sc>(sc.clone()) {
            Ok(s) => exec::run(prop, &s, ctx),
            Err(e) => ctx.harness_errors.push(format!("bad E2 scenario: {e}")),
        }
    }

    fn shrink(&self, _prop: &str, sc: &Value) -> Vec<Value> {
        match serde_json::from_value::<Sc>(sc.clone()) {
            Ok(s) => shrink(&s).into_iter().map(|x| serde_json::to_value(x).unwrap()).collect(),
            Err(_) => vec![],
        }
    }

    fn crash_context(&self, _prop: &str, sc: &Value) -> String {
        format!("run|ending={}", sc["ending"].as_str().unwrap_or("?"))
    }

    fn components(&self) -> (Vec<&'static str>, Vec<&'static str>) {
        (
            vec![
                "iced decoder as used by ax", "Axecutor::new/step/execute", "instruction dispatch and every instr_* reached", "hooks.rs native path",
                "memory.rs", "registers.rs", "trace.rs renderers", "errors.rs", "syscalls.rs exit handler",
            ],
            vec!["thread_rng (served by the seeded RNG seam)", "fatal_error! family in wasm32 mode", "async executor (one poll, no-op waker)", "JS hook path: not run"],
        )
    }

    fn rule(&self, prop: &str) -> String {
        let common = "one run = one generated guest program (straight code, bounded loops, forward/indirect jumps, Jcc/JRCXZ/JECXZ, direct/indirect calls, matched and unmatched returns, traps, faulting endings) with scripted host hooks (answers unhandled/handled/stop/error/mutate/re-entrant-register keyed by invocation), host actions at instruction boundaries, an instruction limit and pre-emption cuts, all drawn from mix(VERIF_SEED, property, run index); ";
        let specific = match prop {
            "C11" => "three drivers of the same scenario (one execute(), step() loop, execute() bursts pre-empted by limits) must agree; per-step oracle on count / return value / RIP / finished; stepping after finish or limit must fail and change nothing; ",
            "C12" => "hook-protocol automaton predicts, per executed instruction, which hooks run in which order with which view of the machine; registration is tried after failed steps, after stop/finish/limit and from inside hooks; ",
            "C18" => "independent tracer (iced decode + observed RIP) against the structured trace and call stack after every step; renderers called on every error path and at step boundaries; ",
            _ => "two machines differing only in the RNG-seam stream behind the constructor (and, through the audit, a second process with different HashMap keys) compared per step and at the end on every explicitly written register, flags, memory, count, trace, call stack, hook observations and error texts; ",
        };
        format!("{common}{specific}a run is non-trivial if it executed at least one guest instruction or a fault fired; distinct = distinct FNV hash of the abstract history (sequence of event kinds and outcome classes, no values)")
    }

    fn assumptions(&self, _prop: &str) -> Vec<String> {
        vec![
            "guest programs are assembled from forms known to execute on the pinned tree; termination is by construction plus a harness step cap".to_string(),
            "where the statement is silent the oracle is permissive: effects and remaining hooks of an instruction whose before-hook stopped the run or reported handled; machine state after a failed step; whether the finishing RET is traced".to_string(),
        ]
    }

    fn level(&self, _prop: &str) -> &'static str {
        "exploration"
    }
}


/// The scenario's program as a static ELF64 image: one R+X segment holding the code, a symbol
/// table with the scenario's (aliased) symbols.
pub fn image_for(sc: &Sc) -> Vec<u8> {
    use crate::e4::elf::{build, ImgSpec, SegSpec, SymSpec};
    let code = from_hex(&sc.code);
    let mut data = code.clone();
    // the loader maps the segment to the end of its page: fill the rest with a byte that is invalid in
    // 64-bit mode, so that running off the program fails at once without reading any register
    while (sc.code_start + data.len() as u64) % 0x1000 != 0 {
        data.push(0x06);
    }
    let spec = ImgSpec {
        segs: vec![SegSpec { vaddr: sc.code_start, filesz: data.len() as u64, memsz: data.len() as u64, flags: 5, seed: 1, data: Some(to_hex(&data)) }],
        ph_order: vec![0],
        file_order: vec![0],
        extras: vec![],
        entry_seg: 0,
        entry_off: sc.entry - sc.code_start,
        syms: sc.symbols.iter().map(|(off, name)| SymSpec { name: Some(name.clone()), seg: 0, off: *off, defined: true, info: None }).collect(),
        sections: true,
        entry_code: String::new(),
    };
    build(&spec).bytes
}
