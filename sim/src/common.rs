//! Shared mechanisms: run context (deviations, fault and probe counters, history hashes),
//! panic capture, the trivial executor for ax's futures, observable-state snapshots.

use std::cell::RefCell;
use std::collections::BTreeMap;
use std::future::Future;
use std::panic::{catch_unwind, AssertUnwindSafe};
use std::pin::Pin;
use std::task::{Context, Poll, RawWaker, RawWakerVTable, Waker};

use ax_x86::axecutor::Axecutor;
use ax_x86::state::registers::SupportedRegister;
use serde::{Deserialize, Serialize};

use crate::rng::fnv1a;

pub const GPR64: [SupportedRegister; 16] = [
    SupportedRegister::RAX,
    SupportedRegister::RBX,
    SupportedRegister::RCX,
    SupportedRegister::RDX,
    SupportedRegister::RSI,
    SupportedRegister::RDI,
    SupportedRegister::RSP,
    SupportedRegister::RBP,
    SupportedRegister::R8,
    SupportedRegister::R9,
    SupportedRegister::R10,
    SupportedRegister::R11,
    SupportedRegister::R12,
    SupportedRegister::R13,
    SupportedRegister::R14,
    SupportedRegister::R15,
];
pub const GPR64_NAMES: [&str; 16] = [
    "RAX", "RBX", "RCX", "RDX", "RSI", "RDI", "RSP", "RBP", "R8", "R9", "R10", "R11", "R12", "R13", "R14", "R15",
];
pub const XMM: [SupportedRegister; 16] = [
    SupportedRegister::XMM0,
    SupportedRegister::XMM1,
    SupportedRegister::XMM2,
    SupportedRegister::XMM3,
    SupportedRegister::XMM4,
    SupportedRegister::XMM5,
    SupportedRegister::XMM6,
    SupportedRegister::XMM7,
    SupportedRegister::XMM8,
    SupportedRegister::XMM9,
    SupportedRegister::XMM10,
    SupportedRegister::XMM11,
    SupportedRegister::XMM12,
    SupportedRegister::XMM13,
    SupportedRegister::XMM14,
    SupportedRegister::XMM15,
];

pub fn gpr_index(name: &str) -> Option<usize> {
    GPR64_NAMES.iter().position(|n| *n == name)
}

// ------------------------------------------------------------------------------------------
// deviations and run context
// ------------------------------------------------------------------------------------------

/// One observed departure from a property's oracle. `sig` is value-free (no addresses, seeds,
/// random values, line numbers); `detail` is for humans.
#[derive(Debug, Clone, Serialize, Deserialize, PartialEq, Eq)]
pub struct Deviation {
    pub prop: String,
    pub sig: String,
    pub detail: String,
}

#[derive(Default)]
pub struct Ctx {
    pub deviations: Vec<Deviation>,
    pub faults: BTreeMap<String, u64>,
    pub probes: BTreeMap<String, u64>,
    pub events: u64,
    pub guest_steps: u64,
    /// hash of the abstract history (event kinds and outcome classes only)
    pub hist: u64,
    /// hash of the full event log (everything observed) - identity of the run for determinism audits
    pub log: u64,
    /// the run reached a state other than the initial one or a fault fired
    pub nontrivial: bool,
    /// harness-level problems (not property violations): reported with exit 2
    pub harness_errors: Vec<String>,
    /// keep full textual log (replay / debugging only)
    pub verbose: bool,
    pub text_log: Vec<String>,
}

impl Ctx {
    pub fn new() -> Ctx {
        Ctx { hist: 0xcbf2_9ce4_8422_2325, log: 0xcbf2_9ce4_8422_2325, ..Default::default() }
    }

    pub fn dev(&mut self, prop: &str, sig: String, detail: String) {
        // keep the first occurrence of each signature per run
        if self.deviations.iter().any(|d| d.sig == sig) {
            return;
        }
        if self.verbose {
            self.text_log.push(format!("DEVIATION {sig} :: {detail}"));
        }
        self.deviations.push(Deviation { prop: prop.to_string(), sig, detail });
    }

    pub fn fault(&mut self, kind: &str) {
        *self.faults.entry(kind.to_string()).or_insert(0) += 1;
        self.nontrivial = true;
    }

    pub fn probe(&mut self, name: &str) {
        *self.probes.entry(name.to_string()).or_insert(0) += 1;
    }

    /// record an event: `kind` goes into the abstract history, `full` (kind + values) into the log
    pub fn event(&mut self, kind: &str, full: &str) {
        self.events += 1;
        self.hist = mix_hash(self.hist, kind.as_bytes());
        self.log = mix_hash(self.log, kind.as_bytes());
        self.log = mix_hash(self.log, full.as_bytes());
        if self.verbose {
            self.text_log.push(format!("{kind} {full}"));
        }
    }

    pub fn log_u64(&mut self, v: u64) {
        self.log = mix_hash(self.log, &v.to_le_bytes());
    }
}

pub fn mix_hash(mut h: u64, bytes: &[u8]) -> u64 {
    for b in bytes {
        h ^= *b as u64;
        h = h.wrapping_mul(0x0000_0100_0000_01B3);
    }
    h ^= 0xff;
    h.wrapping_mul(0x0000_0100_0000_01B3)
}

// ------------------------------------------------------------------------------------------
// panic capture
// ------------------------------------------------------------------------------------------

thread_local! {
    static LAST_PANIC: RefCell<Option<(String, String)>> = RefCell::new(None);
}

pub fn install_panic_hook() {
    std::panic::set_hook(Box::new(|info| {
        let msg = if let Some(s) = info.payload().downcast_ref::<&str>() {
            s.to_string()
        } else if let Some(s) = info.payload().downcast_ref::<String>() {
            s.clone()
        } else {
            "<non-string panic>".to_string()
        };
        let loc = info.location().map(|l| format!("{}:{}", l.file(), l.line())).unwrap_or_default();
        LAST_PANIC.with(|p| *p.borrow_mut() = Some((msg, loc)));
    }));
}

#[derive(Debug, Clone)]
pub struct Panicked {
    pub msg: String,
    pub loc: String,
}

impl Panicked {
    /// message with digits, hex and register-like tokens masked; file (not line) of the panic site
    pub fn class(&self) -> String {
        let file = self.loc.rsplit('/').next().unwrap_or("").split(':').next().unwrap_or("");
        format!("{}@{}", mask_values(&self.msg), file)
    }
}

/// Mask everything value-like in a message so that it can be part of a value-free signature.
pub fn mask_values(s: &str) -> String {
    let mut out = String::new();
    let mut last_hash = false;
    let first_line = s.lines().next().unwrap_or("");
    for tok in first_line.split(|c: char| !(c.is_alphanumeric() || c == '_')) {
        if tok.is_empty() {
            continue;
        }
        let is_val = tok.chars().any(|c| c.is_ascii_digit())
            || (tok.len() >= 2 && tok.len() <= 5 && tok.chars().all(|c| c.is_ascii_uppercase()));
        if is_val {
            if !last_hash {
                out.push_str("#_");
            }
            last_hash = true;
        } else {
            out.push_str(tok);
            out.push('_');
            last_hash = false;
        }
        if out.len() > 80 {
            break;
        }
    }
    out.trim_end_matches('_').to_string()
}

pub fn catch<T>(f: impl FnOnce() -> T) -> Result<T, Panicked> {
    LAST_PANIC.with(|p| *p.borrow_mut() = None);
    match catch_unwind(AssertUnwindSafe(f)) {
        Ok(v) => Ok(v),
        Err(_) => {
            let (msg, loc) = LAST_PANIC.with(|p| p.borrow_mut().take()).unwrap_or_default();
            Err(Panicked { msg, loc })
        }
    }
}

// ------------------------------------------------------------------------------------------
// executor for ax's futures: in a native build nothing may ever be Pending
// ------------------------------------------------------------------------------------------

fn noop_raw_waker() -> RawWaker {
    fn no_op(_: *const ()) {}
    fn clone(_: *const ()) -> RawWaker {
        noop_raw_waker()
    }
    static VTABLE: RawWakerVTable = RawWakerVTable::new(clone, no_op, no_op, no_op);
    RawWaker::new(std::ptr::null(), &VTABLE)
}

thread_local! {
    pub static PENDING_SEEN: RefCell<u64> = RefCell::new(0);
}

/// Polls the future once; a `Pending` is a harness error (counted) and is turned into a panic.
pub fn block_on<F: Future>(fut: F) -> F::Output {
    let waker = unsafe { Waker::from_raw(noop_raw_waker()) };
    let mut cx = Context::from_waker(&waker);
    let mut fut = Box::pin(fut);
    match Pin::as_mut(&mut fut).poll(&mut cx) {
        Poll::Ready(v) => v,
        Poll::Pending => {
            PENDING_SEEN.with(|p| *p.borrow_mut() += 1);
            panic!("axsim: future returned Pending in a native build");
        }
    }
}

/// Result of one `step()` as the harness sees it.
#[derive(Debug, Clone)]
pub enum StepOut {
    Ok(bool),
    Err(String),
    Panic(Panicked),
}

pub fn do_step(ax: &mut Axecutor) -> StepOut {
    match catch(|| block_on(ax.step())) {
        Ok(Ok(b)) => StepOut::Ok(b),
        Ok(Err(e)) => match catch(|| e.to_string()) {
            Ok(s) => StepOut::Err(s),
            Err(p) => StepOut::Panic(p),
        },
        Err(p) => StepOut::Panic(p),
    }
}

#[derive(Debug, Clone)]
pub enum ExecOut {
    Ok,
    Err(String),
    Panic(Panicked),
}

pub fn do_execute(ax: &mut Axecutor) -> ExecOut {
    match catch(|| block_on(ax.execute())) {
        Ok(Ok(())) => ExecOut::Ok,
        Ok(Err(e)) => match catch(|| e.to_string()) {
            Ok(s) => ExecOut::Err(s),
            Err(p) => ExecOut::Panic(p),
        },
        Err(p) => ExecOut::Panic(p),
    }
}

// ------------------------------------------------------------------------------------------
// observable state
// ------------------------------------------------------------------------------------------

#[derive(Debug, Clone, PartialEq, Eq)]
pub struct Obs {
    pub rip: u64,
    pub gpr: [u64; 16],
    pub xmm: [u128; 16],
    pub rflags: u64,
    pub fs: u64,
    pub gs: u64,
    pub finished: bool,
    pub executed: u64,
    pub areas: Vec<(u64, u64, u32, u64)>, // start, length, access, hash of contents
    pub trace: Vec<(u64, u64, u8, i16, u64)>,
    pub call_stack: Vec<u64>,
}

/// registers only (no hashing of memory): for per-operation checks on machines with large areas
pub fn observe_regs(ax: &Axecutor) -> ([u64; 16], u64, [u128; 16]) {
    let mut gpr = [0u64; 16];
    for (i, r) in GPR64.iter().enumerate() {
        gpr[i] = ax.reg_read_64(*r).unwrap_or(0xdead_dead);
    }
    let mut xmm = [0u128; 16];
    for (i, r) in XMM.iter().enumerate() {
        xmm[i] = ax.reg_read_128(*r).unwrap_or(0xdead_dead);
    }
    (gpr, ax.reg_read_64(SupportedRegister::RIP).unwrap_or(0xdead_dead), xmm)
}

pub fn observe(ax: &Axecutor) -> Obs {
    let mut gpr = [0u64; 16];
    for (i, r) in GPR64.iter().enumerate() {
        gpr[i] = ax.reg_read_64(*r).unwrap_or(0xdead_dead);
    }
    let mut xmm = [0u128; 16];
    for (i, r) in XMM.iter().enumerate() {
        xmm[i] = ax.reg_read_128(*r).unwrap_or(0xdead_dead);
    }
    let mut areas: Vec<(u64, u64, u32, u64)> = Vec::new();
    for (start, len, access, _dl) in ax.verif_area_extents() {
        let h = fnv1a(ax.verif_area_data(start).unwrap_or(&[]));
        areas.push((start, len, access, h));
    }
    areas.sort();
    Obs {
        rip: ax.reg_read_64(SupportedRegister::RIP).unwrap_or(0xdead_dead),
        gpr,
        xmm,
        rflags: ax.verif_rflags(),
        fs: ax.read_fs(),
        gs: ax.read_gs(),
        finished: ax.verif_finished(),
        executed: ax.verif_executed(),
        areas,
        trace: ax.verif_trace().iter().map(|t| (t.instr_ip, t.target, t.variant, t.level, t.count)).collect(),
        call_stack: ax.verif_call_stack(),
    }
}

impl Obs {
    pub fn digest(&self) -> u64 {
        let mut h = 0xcbf2_9ce4_8422_2325u64;
        h = mix_hash(h, &self.rip.to_le_bytes());
        for g in self.gpr.iter() {
            h = mix_hash(h, &g.to_le_bytes());
        }
        for x in self.xmm.iter() {
            h = mix_hash(h, &x.to_le_bytes());
        }
        h = mix_hash(h, &self.rflags.to_le_bytes());
        h = mix_hash(h, &self.fs.to_le_bytes());
        h = mix_hash(h, &self.gs.to_le_bytes());
        h = mix_hash(h, &[self.finished as u8]);
        h = mix_hash(h, &self.executed.to_le_bytes());
        for a in self.areas.iter() {
            h = mix_hash(h, &a.0.to_le_bytes());
            h = mix_hash(h, &a.1.to_le_bytes());
            h = mix_hash(h, &a.2.to_le_bytes());
            h = mix_hash(h, &a.3.to_le_bytes());
        }
        for t in self.trace.iter() {
            h = mix_hash(h, &t.0.to_le_bytes());
            h = mix_hash(h, &t.1.to_le_bytes());
            h = mix_hash(h, &[t.2]);
            h = mix_hash(h, &t.3.to_le_bytes());
            h = mix_hash(h, &t.4.to_le_bytes());
        }
        for c in self.call_stack.iter() {
            h = mix_hash(h, &c.to_le_bytes());
        }
        h
    }

    /// name of the first component that differs, for signatures
    pub fn first_diff(&self, other: &Obs) -> Option<String> {
        if self.rip != other.rip {
            return Some("rip".into());
        }
        for i in 0..16 {
            if self.gpr[i] != other.gpr[i] {
                return Some("reg".into());
            }
        }
        for i in 0..16 {
            if self.xmm[i] != other.xmm[i] {
                return Some("xmm".into());
            }
        }
        if self.rflags != other.rflags {
            return Some("flags".into());
        }
        if self.fs != other.fs || self.gs != other.gs {
            return Some("segbase".into());
        }
        if self.finished != other.finished {
            return Some("finished".into());
        }
        if self.executed != other.executed {
            return Some("count".into());
        }
        if self.areas != other.areas {
            return Some("mem".into());
        }
        if self.trace != other.trace {
            return Some("trace".into());
        }
        if self.call_stack != other.call_stack {
            return Some("callstack".into());
        }
        None
    }
}

// ------------------------------------------------------------------------------------------
// hex helpers
// ------------------------------------------------------------------------------------------

pub fn to_hex(b: &[u8]) -> String {
    let mut s = String::with_capacity(b.len() * 2);
    for x in b {
        s.push_str(&format!("{x:02x}"));
    }
    s
}

pub fn from_hex(s: &str) -> Vec<u8> {
    let b = s.as_bytes();
    let mut v = Vec::with_capacity(b.len() / 2);
    let mut i = 0;
    while i + 1 < b.len() {
        let h = (b[i] as char).to_digit(16).unwrap_or(0) as u8;
        let l = (b[i + 1] as char).to_digit(16).unwrap_or(0) as u8;
        v.push(h << 4 | l);
        i += 2;
    }
    v
}

/// Install a seeded stream behind ax's RNG seam (H4) for the current thread.
pub fn install_ax_rng(seed: u64) {
    let mut r = crate::rng::Rng::new(seed ^ 0xA5A5_5A5A_1234_5678);
    ax_x86::verif::set_rng(Some(Box::new(move || r.next())));
}

/// Serve an explicit list of values (then fall back to a seeded stream).
pub fn install_ax_rng_values(values: Vec<u64>, then_seed: u64) {
    let mut r = crate::rng::Rng::new(then_seed ^ 0x0F0F_F0F0_9876_5432);
    let mut i = 0usize;
    ax_x86::verif::set_rng(Some(Box::new(move || {
        if i < values.len() {
            i += 1;
            values[i - 1]
        } else {
            r.next()
        }
    })));
}
