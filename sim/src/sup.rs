//! Supervisor: worker processes, crash / hang / allocation capture, determinism audit,
//! known-findings matching, minimisation, replay files, evidence.

use std::collections::{BTreeMap, BTreeSet};
use std::io::{BufRead, BufReader, Read, Write};
use std::path::PathBuf;
use std::process::{Command, Stdio};
use std::sync::atomic::{AtomicUsize, Ordering};
use std::sync::{Arc, Mutex};
use std::time::{Duration, Instant};

use serde::{Deserialize, Serialize};
use serde_json::{json, Value};

use crate::common::{catch, install_panic_hook, Ctx, Deviation};
use crate::engine::{engine_for, Engine, COMMON_ASSUMPTIONS};

pub const DEFAULT_FUEL: u64 = 1 << 22;

/// hangs pinned on individual runs so far in this check / chunks given up after that
static HANGS: AtomicUsize = AtomicUsize::new(0);
static SKIPPED_CHUNKS: AtomicUsize = AtomicUsize::new(0);
const MAX_HANGS_PINNED: usize = 3;

/// allocation seam: largest single request a worker serves
pub fn alloc_cap_for(prop: &str) -> usize {
    match prop {
        "C15" | "C16" | "C17" | "C13" | "C14" => (256 << 20) + (64 << 10),
        _ => 1 << 30,
    }
}

#[derive(Serialize, Deserialize, Default, Debug, Clone)]
pub struct ChunkResult {
    pub from: u64,
    pub to: u64,
    pub runs: u64,
    pub events: u64,
    pub guest_steps: u64,
    pub nontrivial_runs: u64,
    pub faults: BTreeMap<String, u64>,
    pub probes: BTreeMap<String, u64>,
    /// distinct abstract-history hashes of the non-trivial runs
    pub hist: BTreeSet<u64>,
    /// per-run event-log hashes folded in index order
    pub log_hash: u64,
    pub devs: Vec<(u64, Deviation)>,
    pub harness_errors: Vec<String>,
}

impl ChunkResult {
    fn absorb_run(&mut self, idx: u64, ctx: Ctx) {
        self.runs += 1;
        self.events += ctx.events;
        self.guest_steps += ctx.guest_steps;
        if ctx.nontrivial {
            self.nontrivial_runs += 1;
            self.hist.insert(ctx.hist);
        }
        for (k, v) in ctx.faults {
            *self.faults.entry(k).or_insert(0) += v;
        }
        for (k, v) in ctx.probes {
            *self.probes.entry(k).or_insert(0) += v;
        }
        self.log_hash = crate::common::mix_hash(self.log_hash ^ idx, &ctx.log.to_le_bytes());
        for d in ctx.deviations {
            self.devs.push((idx, d));
        }
        for e in ctx.harness_errors {
            if self.harness_errors.len() < 20 {
                self.harness_errors.push(format!("run {idx}: {e}"));
            }
        }
    }

    fn merge(&mut self, o: ChunkResult) {
        self.runs += o.runs;
        self.events += o.events;
        self.guest_steps += o.guest_steps;
        self.nontrivial_runs += o.nontrivial_runs;
        for (k, v) in o.faults {
            *self.faults.entry(k).or_insert(0) += v;
        }
        for (k, v) in o.probes {
            *self.probes.entry(k).or_insert(0) += v;
        }
        self.hist.extend(o.hist);
        self.devs.extend(o.devs);
        for e in o.harness_errors {
            if self.harness_errors.len() < 50 {
                self.harness_errors.push(e);
            }
        }
    }
}

/// Execute one scenario in this process (all ax calls inside `exec` are individually guarded;
/// a panic that escapes is a harness problem, not a property violation).
pub fn exec_scenario(eng: &dyn Engine, prop: &str, sc: &Value, verbose: bool) -> Ctx {
    let mut ctx = Ctx::new();
    ctx.verbose = verbose;
    ax_x86::verif::set_fuel(Some(DEFAULT_FUEL));
    ax_x86::verif::set_rng(None);
    let r = catch(|| eng.exec(prop, sc, &mut ctx));
    if let Err(p) = r {
        ctx.harness_errors.push(format!("panic escaped the engine: {} at {}", p.msg, p.loc));
    }
    // a placement loop inside a guest step that used up the whole iteration budget (4 M probes) is a
    // hang of that step for every practical purpose: the properties that promise termination of steps
    // (C19) and a working heap (C13) count it, whatever the step returned once the seam cut it short
    if (prop == "C13" || prop == "C19") && ax_x86::verif::fuel_was_exhausted() {
        ctx.dev(prop, format!("{prop}|hang|placement_loop_budget_exhausted"), "a retry loop reached during the run did not terminate within the iteration budget of the fuel seam".into());
    }
    let pend = crate::common::PENDING_SEEN.with(|p| *p.borrow());
    if pend > 0 {
        ctx.harness_errors.push("a future returned Pending in a native build".to_string());
    }
    ctx
}

pub fn worker_main(prop: &str, thorough: bool, seed: u64, from: u64, to: u64, careful: bool) -> i32 {
    die_with_parent();
    install_panic_hook();
    crate::set_alloc_cap(alloc_cap_for(prop));
    let eng = match engine_for(prop) {
        Some(e) => e,
        None => return 2,
    };
    let mut res = ChunkResult { from, to, ..Default::default() };
    let stdout = std::io::stdout();
    for idx in from..to {
        let sc = eng.gen(prop, thorough, seed, idx);
        if careful {
            let mut o = stdout.lock();
            let _ = writeln!(o, "B {idx} {}", eng.crash_context(prop, &sc));
            let _ = o.flush();
        }
        let ctx = exec_scenario(eng, prop, &sc, false);
        if careful {
            let mut one = ChunkResult { from: idx, to: idx + 1, ..Default::default() };
            one.absorb_run(idx, ctx);
            let mut o = stdout.lock();
            let _ = writeln!(o, "P {}", serde_json::to_string(&one).unwrap());
            let _ = o.flush();
        } else {
            res.absorb_run(idx, ctx);
        }
    }
    if !careful {
        let mut o = stdout.lock();
        let _ = writeln!(o, "R {}", serde_json::to_string(&res).unwrap());
        let _ = o.flush();
    }
    0
}

/// `axsim exec-one <prop>`: scenario on stdin, deviations as one JSON line on stdout.
/// a child must not outlive its supervisor (a hung run would spin forever once nobody waits for it)
fn die_with_parent() {
    unsafe {
        libc::prctl(libc::PR_SET_PDEATHSIG, libc::SIGKILL);
    }
}

pub fn exec_one_main(prop: &str, verbose: bool) -> i32 {
    die_with_parent();
    install_panic_hook();
    crate::set_alloc_cap(alloc_cap_for(prop));
    let eng = match engine_for(prop) {
        Some(e) => e,
        None => return 2,
    };
    let mut s = String::new();
    if std::io::stdin().read_to_string(&mut s).is_err() {
        return 2;
    }
    let sc: Value = match serde_json::from_str(&s) {
        Ok(v) => v,
        Err(_) => return 2,
    };
    println!("B 0 {}", eng.crash_context(prop, &sc));
    let _ = std::io::stdout().flush();
    let ctx = exec_scenario(eng, prop, &sc, verbose);
    if verbose {
        for l in ctx.text_log.iter() {
            eprintln!("{l}");
        }
    }
    let out = json!({"devs": ctx.deviations, "harness_errors": ctx.harness_errors, "log": ctx.log});
    println!("D {}", serde_json::to_string(&out).unwrap());
    0
}

fn self_exe() -> PathBuf {
    std::env::current_exe().expect("current_exe")
}

/// The worker binary of a build: "release" = this binary; "arith" = the same sources compiled with
/// integer-overflow checks (profile `arith`), i.e. the arithmetic of a dev / `cargo test` artefact.
pub fn exe_for(build: &str) -> Option<PathBuf> {
    if build != "arith" {
        return Some(self_exe());
    }
    if let Ok(p) = std::env::var("AXSIM_ARITH_BIN") {
        let p = PathBuf::from(p);
        return if p.exists() { Some(p) } else { None };
    }
    let me = self_exe();
    let cand = me.parent()?.parent()?.join("arith").join("axsim");
    if cand.exists() {
        Some(cand)
    } else {
        None
    }
}

fn classify_death(status: &std::process::ExitStatus, stderr: &str, timed_out: bool) -> String {
    use std::os::unix::process::ExitStatusExt;
    if timed_out {
        return "hang_watchdog".to_string();
    }
    if stderr.contains("ALLOC-DENIED") || stderr.contains("memory allocation of") {
        return "abort:alloc".to_string();
    }
    if stderr.contains("stack overflow") {
        return "abort:stack_overflow".to_string();
    }
    match status.signal() {
        Some(6) => "abort".to_string(),
        Some(s) => format!("signal_{s}"),
        None => format!("exit_{}", status.code().unwrap_or(-1)),
    }
}

struct ChildOut {
    stdout: String,
    stderr: String,
    status: std::process::ExitStatus,
    timed_out: bool,
}

/// CPU seconds (user + system) a child has consumed so far. The watchdogs count these rather than
/// wall-clock time, so a loaded machine cannot turn a slow run into a "hang"; a run that makes no
/// progress without burning CPU is still caught by a wall-clock bound six times as long.
fn cpu_secs(pid: u32) -> Option<f64> {
    let s = std::fs::read_to_string(format!("/proc/{pid}/stat")).ok()?;
    let rest = &s[s.rfind(')')? + 2..];
    let f: Vec<&str> = rest.split(' ').collect();
    let ut: f64 = f.get(11)?.parse().ok()?;
    let st: f64 = f.get(12)?.parse().ok()?;
    Some((ut + st) / 100.0)
}

fn run_child(build: &str, args: &[String], stdin_data: Option<&str>, timeout: Duration) -> Option<ChildOut> {
    let mut child = Command::new(exe_for(build)?)
        .args(args)
        // (a backtrace on stderr would push the line that names the cause out of the part that is kept)
        .env("RUST_BACKTRACE", "0")
        .stdin(if stdin_data.is_some() { Stdio::piped() } else { Stdio::null() })
        .stdout(Stdio::piped())
        .stderr(Stdio::piped())
        .spawn()
        .ok()?;
    if let Some(d) = stdin_data {
        let mut si = child.stdin.take()?;
        let d = d.to_string();
        std::thread::spawn(move || {
            let _ = si.write_all(d.as_bytes());
        });
    }
    let mut so = child.stdout.take()?;
    let mut se = child.stderr.take()?;
    let t1 = std::thread::spawn(move || {
        let mut s = String::new();
        let _ = so.read_to_string(&mut s);
        s
    });
    let t2 = std::thread::spawn(move || {
        let mut s = Vec::new();
        let _ = se.read_to_end(&mut s);
        let s = String::from_utf8_lossy(&s).to_string();
        if s.len() > 8000 {
            // head and tail: the cause is named first, the context last
            let mut a = 4000;
            while !s.is_char_boundary(a) {
                a -= 1;
            }
            let mut b = s.len() - 4000;
            while !s.is_char_boundary(b) {
                b += 1;
            }
            format!("{}\n[...]\n{}", &s[..a], &s[b..])
        } else {
            s
        }
    });
    let start = Instant::now();
    let mut timed_out = false;
    let status = loop {
        match child.try_wait() {
            Ok(Some(st)) => break st,
            Ok(None) => {
                let el = start.elapsed();
                let cpu = cpu_secs(child.id()).unwrap_or(el.as_secs_f64());
                if el > timeout * 6 || (el > timeout && cpu > timeout.as_secs_f64()) {
                    timed_out = true;
                    let _ = child.kill();
                    break child.wait().ok()?;
                }
                std::thread::sleep(Duration::from_millis(2));
            }
            Err(_) => return None,
        }
    };
    Some(ChildOut { stdout: t1.join().unwrap_or_default(), stderr: t2.join().unwrap_or_default(), status, timed_out })
}

/// Evaluate one scenario in a fresh child process; crashes of the child become deviations.
pub fn eval_in_child(build: &str, prop: &str, sc: &Value, timeout: Duration) -> Result<(Vec<Deviation>, Vec<String>), String> {
    let data = serde_json::to_string(sc).map_err(|e| e.to_string())?;
    let out = run_child(build, &["exec-one".to_string(), prop.to_string()], Some(&data), timeout)
        .ok_or_else(|| "cannot spawn child".to_string())?;
    let mut context = String::new();
    for l in out.stdout.lines() {
        if let Some(rest) = l.strip_prefix("B 0 ") {
            context = rest.to_string();
        }
        if let Some(rest) = l.strip_prefix("D ") {
            let v: Value = serde_json::from_str(rest).map_err(|e| e.to_string())?;
            let devs: Vec<Deviation> = serde_json::from_value(v["devs"].clone()).map_err(|e| e.to_string())?;
            let he: Vec<String> = serde_json::from_value(v["harness_errors"].clone()).unwrap_or_default();
            return Ok((devs, he));
        }
    }
    if out.status.success() {
        return Err(format!("child produced no result: {}", out.stderr));
    }
    let class = classify_death(&out.status, &out.stderr, out.timed_out);
    Ok((
        vec![Deviation {
            prop: prop.to_string(),
            sig: format!("{prop}|crash|{context}|{class}"),
            detail: format!("worker process died: {class}; stderr tail: {}", tail(&out.stderr, 300)),
        }],
        vec![],
    ))
}

fn tail(s: &str, n: usize) -> String {
    let t = s.trim();
    if t.len() > n {
        let mut start = t.len() - n;
        while !t.is_char_boundary(start) {
            start += 1;
        }
        t[start..].replace('\n', " / ")
    } else {
        t.replace('\n', " / ")
    }
}

/// Run one chunk in a worker process; on abnormal death re-run it carefully to pin the crash on a run.
fn run_chunk(build: &str, prop: &str, thorough: bool, seed: u64, from: u64, to: u64) -> ChunkResult {
    let args: Vec<String> = vec![
        "worker".into(),
        prop.into(),
        if thorough { "thorough".into() } else { "quick".into() },
        seed.to_string(),
        from.to_string(),
        to.to_string(),
        "fast".into(),
    ];
    let fast_limit = if HANGS.load(Ordering::SeqCst) >= MAX_HANGS_PINNED { 25 } else { 90 };
    let fast = run_child(build, &args, None, Duration::from_secs(fast_limit));
    let fast_timed_out = fast.as_ref().map(|o| o.timed_out).unwrap_or(false);
    if let Some(out) = fast {
        if out.status.success() {
            for l in out.stdout.lines() {
                if let Some(rest) = l.strip_prefix("R ") {
                    if let Ok(r) = serde_json::from_str::<ChunkResult>(rest) {
                        return r;
                    }
                }
            }
        }
    }
    // slow path
    let mut total = ChunkResult { from, to, ..Default::default() };
    if fast_timed_out && HANGS.load(Ordering::SeqCst) >= MAX_HANGS_PINNED {
        // several hangs have already been pinned on individual runs (and will be reported); do not
        // spend a watchdog period on every further hanging run of this check
        SKIPPED_CHUNKS.fetch_add(1, Ordering::SeqCst);
        return total;
    }
    let mut next = from;
    let mut guard = 0;
    while next < to {
        guard += 1;
        if guard > 10_000 {
            total.harness_errors.push("careful re-run did not make progress".into());
            break;
        }
        let (done_to, crashed) = run_careful(build, prop, thorough, seed, next, to, &mut total);
        next = done_to;
        if !crashed {
            break;
        }
        if HANGS.load(Ordering::SeqCst) >= MAX_HANGS_PINNED && fast_timed_out {
            SKIPPED_CHUNKS.fetch_add(1, Ordering::SeqCst);
            break;
        }
    }
    total
}

/// Careful worker: announces every run before it starts. Returns (next index to run, crashed?).
fn run_careful(build: &str, prop: &str, thorough: bool, seed: u64, from: u64, to: u64, total: &mut ChunkResult) -> (u64, bool) {
    let args: Vec<String> = vec![
        "worker".into(),
        prop.into(),
        if thorough { "thorough".into() } else { "quick".into() },
        seed.to_string(),
        from.to_string(),
        to.to_string(),
        "careful".into(),
    ];
    let mut child = match Command::new(exe_for(build).unwrap_or_else(self_exe)).args(&args).env("RUST_BACKTRACE", "0").stdin(Stdio::null()).stdout(Stdio::piped()).stderr(Stdio::piped()).spawn() {
        Ok(c) => c,
        Err(e) => {
            total.harness_errors.push(format!("cannot spawn careful worker: {e}"));
            return (to, false);
        }
    };
    let so = child.stdout.take().unwrap();
    let mut se = child.stderr.take().unwrap();
    let state: Arc<Mutex<(Option<(u64, String)>, Instant, Vec<ChunkResult>)>> = Arc::new(Mutex::new((None, Instant::now(), Vec::new())));
    let st2 = state.clone();
    let reader = std::thread::spawn(move || {
        let br = BufReader::new(so);
        for l in br.lines() {
            let l = match l {
                Ok(l) => l,
                Err(_) => break,
            };
            if let Some(rest) = l.strip_prefix("B ") {
                let mut it = rest.splitn(2, ' ');
                let idx: u64 = it.next().unwrap_or("0").parse().unwrap_or(0);
                let cx = it.next().unwrap_or("").to_string();
                let mut g = st2.lock().unwrap();
                g.0 = Some((idx, cx));
                g.1 = Instant::now();
            } else if let Some(rest) = l.strip_prefix("P ") {
                if let Ok(r) = serde_json::from_str::<ChunkResult>(rest) {
                    let mut g = st2.lock().unwrap();
                    g.0 = None;
                    g.1 = Instant::now();
                    g.2.push(r);
                }
            }
        }
    });
    let errt = std::thread::spawn(move || {
        let mut s = Vec::new();
        let _ = se.read_to_end(&mut s);
        String::from_utf8_lossy(&s).to_string()
    });
    let mut timed_out = false;
    let mut marker = state.lock().unwrap().1;
    let mut cpu_at_marker = 0.0f64;
    let status = loop {
        match child.try_wait() {
            Ok(Some(st)) => break Some(st),
            Ok(None) => {
                let last = state.lock().unwrap().1;
                let cpu = cpu_secs(child.id());
                if last != marker {
                    marker = last;
                    cpu_at_marker = cpu.unwrap_or(0.0);
                }
                let since = last.elapsed();
                let burnt = cpu.map(|c| c - cpu_at_marker).unwrap_or(since.as_secs_f64());
                if since > Duration::from_secs(72) || (since > Duration::from_secs(12) && burnt > 12.0) {
                    timed_out = true;
                    let _ = child.kill();
                    break child.wait().ok();
                }
                std::thread::sleep(Duration::from_millis(2));
            }
            Err(_) => break None,
        }
    };
    let _ = reader.join();
    let stderr = errt.join().unwrap_or_default();
    let mut g = state.lock().unwrap();
    for r in g.2.drain(..) {
        total.merge(r.clone());
        total.log_hash = crate::common::mix_hash(total.log_hash ^ r.from, &r.log_hash.to_le_bytes());
    }
    let ok = status.map(|s| s.success()).unwrap_or(false) && !timed_out;
    if ok {
        return (to, false);
    }
    match g.0.take() {
        Some((idx, cx)) => {
            let class = match status {
                Some(st) => classify_death(&st, &stderr, timed_out),
                None => "unknown".to_string(),
            };
            if timed_out {
                HANGS.fetch_add(1, Ordering::SeqCst);
            }
            total.runs += 1;
            total.nontrivial_runs += 1;
            total.devs.push((
                idx,
                Deviation {
                    prop: prop.to_string(),
                    sig: format!("{prop}|crash|{cx}|{class}"),
                    detail: format!("worker process died: {class}; stderr tail: {}", tail(&stderr, 300)),
                },
            ));
            (idx + 1, true)
        }
        None => {
            total.harness_errors.push(format!("careful worker died outside a run: {}", tail(&stderr, 300)));
            (to, false)
        }
    }
}

// ------------------------------------------------------------------------------------------
// known findings
// ------------------------------------------------------------------------------------------

#[derive(Serialize, Deserialize, Debug, Clone)]
pub struct KnownFinding {
    pub property: String,
    pub signature: String,
    pub what_fails: String,
    pub status: String, // "known" | "fixed"
    #[serde(default)]
    pub commit: Option<String>,
    #[serde(default)]
    pub replay: Option<String>,
}

pub fn verif_dir() -> PathBuf {
    if let Ok(d) = std::env::var("VERIF_DIR") {
        return PathBuf::from(d);
    }
    PathBuf::from("/verif")
}

pub fn load_known() -> Vec<KnownFinding> {
    let p = verif_dir().join("known_findings.json");
    match std::fs::read_to_string(&p) {
        Ok(s) => serde_json::from_str::<Vec<KnownFinding>>(&s).unwrap_or_else(|e| {
            eprintln!("axsim: cannot parse {}: {e}", p.display());
            std::process::exit(2);
        }),
        Err(_) => Vec::new(),
    }
}

pub fn sig_matches(pattern: &str, sig: &str) -> bool {
    if let Some(pre) = pattern.strip_suffix('*') {
        sig.starts_with(pre)
    } else {
        pattern == sig
    }
}

fn known_for<'a>(known: &'a [KnownFinding], prop: &str, sig: &str) -> Option<&'a KnownFinding> {
    known.iter().find(|k| k.status == "known" && k.property == prop && sig_matches(&k.signature, sig))
}

// ------------------------------------------------------------------------------------------
// minimisation and replay
// ------------------------------------------------------------------------------------------

fn is_crash_sig(sig: &str) -> bool {
    sig.contains("|crash|")
}

fn reproduces(build: &str, eng: &dyn Engine, prop: &str, sc: &Value, sig: &str, in_child: bool) -> bool {
    if in_child || build != "release" {
        match eval_in_child(build, prop, sc, Duration::from_secs(20)) {
            Ok((devs, _)) => devs.iter().any(|d| d.sig == sig),
            Err(_) => false,
        }
    } else {
        let ctx = exec_scenario(eng, prop, sc, false);
        ctx.deviations.iter().any(|d| d.sig == sig)
    }
}

pub fn minimise(build: &str, eng: &dyn Engine, prop: &str, sc: &Value, sig: &str) -> (Value, u64) {
    let in_child = is_crash_sig(sig) || build != "release";
    let mut cur = sc.clone();
    let mut evals: u64 = 0;
    let max_evals: u64 = if build != "release" && !is_crash_sig(sig) { 400 } else if in_child { if sig.ends_with("hang_watchdog") { 12 } else { 120 } } else { 3000 };
    let deadline = Instant::now() + Duration::from_secs(if in_child { 120 } else { 45 });
    loop {
        let mut progressed = false;
        for cand in eng.shrink(prop, &cur) {
            if evals >= max_evals || Instant::now() > deadline {
                return (cur, evals);
            }
            evals += 1;
            if reproduces(build, eng, prop, &cand, sig, in_child) {
                cur = cand;
                progressed = true;
                break;
            }
        }
        if !progressed {
            return (cur, evals);
        }
    }
}

fn sig_file_name(prop: &str, sig: &str) -> String {
    format!("{prop}-{:016x}.json", crate::rng::fnv1a(sig.as_bytes()))
}

pub fn replay_main(path: &str, verbose: bool) -> i32 {
    let s = match std::fs::read_to_string(path) {
        Ok(s) => s,
        Err(e) => {
            eprintln!("axsim: cannot read {path}: {e}");
            return 2;
        }
    };
    let v: Value = match serde_json::from_str(&s) {
        Ok(v) => v,
        Err(e) => {
            eprintln!("axsim: cannot parse {path}: {e}");
            return 2;
        }
    };
    let prop = v["property"].as_str().unwrap_or("").to_string();
    let sig = v["signature"].as_str().unwrap_or("").to_string();
    if engine_for(&prop).is_none() {
        eprintln!("axsim: unknown property in replay file");
        return 2;
    }
    let build = v["build"].as_str().unwrap_or("release").to_string();
    if exe_for(&build).is_none() {
        eprintln!("axsim: the replay needs the `{build}` build of the simulator, which is not there (./check build)");
        return 2;
    }
    if verbose {
        // run in-process with the full event log on stderr (may die with the scenario if it aborts)
        let data = serde_json::to_string(&v["scenario"]).unwrap();
        let out = run_child(&build, &["exec-one".to_string(), prop.clone(), "verbose".to_string()], Some(&data), Duration::from_secs(120));
        if let Some(o) = out {
            eprintln!("{}", o.stderr);
        }
    }
    match eval_in_child(&build, &prop, &v["scenario"], Duration::from_secs(120)) {
        Ok((devs, he)) => {
            for d in devs.iter() {
                println!("deviation: {} :: {}", d.sig, d.detail);
            }
            for h in he.iter() {
                println!("harness-error: {h}");
            }
            if devs.iter().any(|d| d.sig == sig) {
                println!("VIOLATION property={prop} replay={path}");
                println!("reproduced: {sig}");
                1
            } else {
                println!("not reproduced: {sig}");
                0
            }
        }
        Err(e) => {
            eprintln!("axsim: replay failed: {e}");
            2
        }
    }
}

// ------------------------------------------------------------------------------------------
// the check
// ------------------------------------------------------------------------------------------

fn truncate_strings(v: &Value) -> Value {
    match v {
        Value::String(s) if s.len() > 240 => Value::String(format!("{}...({} chars)", &s[..200], s.len())),
        Value::Array(a) => {
            let mut out: Vec<Value> = a.iter().take(40).map(truncate_strings).collect();
            if a.len() > 40 {
                out.push(Value::String(format!("...({} items)", a.len())));
            }
            Value::Array(out)
        }
        Value::Object(o) => Value::Object(o.iter().map(|(k, v)| (k.clone(), truncate_strings(v))).collect()),
        _ => v.clone(),
    }
}

pub fn check_main(prop: &str, thorough: bool, seed: u64) -> i32 {
    install_panic_hook();
    let eng = match engine_for(prop) {
        Some(e) => e,
        None => {
            eprintln!("axsim: no engine for property {prop}");
            return 2;
        }
    };
    let start = Instant::now();
    let total = eng.runs(prop, thorough);
    let workers: usize = std::env::var("VERIF_WORKERS").ok().and_then(|s| s.parse().ok()).unwrap_or_else(|| {
        std::thread::available_parallelism().map(|n| n.get()).unwrap_or(4).min(16)
    });
    let chunk = (total / (workers as u64 * 6)).clamp(8, 8192).max(1);
    let mut chunks: Vec<(u64, u64)> = Vec::new();
    let mut a = 0;
    while a < total {
        let b = (a + chunk).min(total);
        chunks.push((a, b));
        a = b;
    }
    println!("axsim: property={prop} engine={} tier={} VERIF_SEED={seed} runs={total} chunks={} workers={workers}", eng.name(), if thorough { "thorough" } else { "quick" }, chunks.len());

    // audit: re-run a sample of chunks in separate processes and compare event-log hashes
    let audit_every = (chunks.len() / 4).max(1);
    // job kinds: 0 = main run, 1 = determinism audit (same chunk, another process), 2 = the same chunk
    // executed by the overflow-checks build of the simulator (second phase of every check)
    let mut jobs: Vec<(usize, u8)> = (0..chunks.len()).map(|i| (i, 0u8)).collect();
    for i in (0..chunks.len()).step_by(audit_every) {
        jobs.push((i, 1));
    }
    let arith_available = exe_for("arith").is_some();
    let arith_step: usize = std::env::var("VERIF_ARITH_EVERY").ok().and_then(|s| s.parse().ok()).unwrap_or(if thorough { 4 } else { 1 });
    if arith_available && arith_step > 0 {
        for i in (0..chunks.len()).step_by(arith_step) {
            jobs.push((i, 2));
        }
    }
    let next = Arc::new(AtomicUsize::new(0));
    let results: Arc<Mutex<Vec<(usize, u8, ChunkResult)>>> = Arc::new(Mutex::new(Vec::new()));
    let jobs = Arc::new(jobs);
    let chunks = Arc::new(chunks);
    let mut handles = Vec::new();
    for _ in 0..workers {
        let next = next.clone();
        let results = results.clone();
        let jobs = jobs.clone();
        let chunks = chunks.clone();
        let prop = prop.to_string();
        handles.push(std::thread::spawn(move || loop {
            let j = next.fetch_add(1, Ordering::SeqCst);
            if j >= jobs.len() {
                break;
            }
            let (ci, kind) = jobs[j];
            let (from, to) = chunks[ci];
            let r = run_chunk(if kind == 2 { "arith" } else { "release" }, &prop, thorough, seed, from, to);
            results.lock().unwrap().push((ci, kind, r));
        }));
    }
    for h in handles {
        let _ = h.join();
    }
    let mut results = Arc::try_unwrap(results).unwrap().into_inner().unwrap();
    results.sort_by_key(|(ci, kind, _)| (*ci, *kind));

    let mut agg = ChunkResult::default();
    let mut arith = ChunkResult::default();
    let mut main_hash: BTreeMap<usize, (u64, Vec<String>)> = BTreeMap::new();
    let mut audit_reruns = 0u64;
    let mut audit_mismatch = 0u64;
    for (ci, kind, r) in results {
        let mut sigs: Vec<String> = r.devs.iter().map(|(i, d)| format!("{i}:{}", d.sig)).collect();
        sigs.sort();
        if kind == 2 {
            arith.merge(r);
        } else if kind == 0 {
            main_hash.insert(ci, (r.log_hash, sigs));
            agg.merge(r);
        } else {
            audit_reruns += 1;
            if let Some((h, s)) = main_hash.get(&ci) {
                if *h != r.log_hash || *s != sigs {
                    audit_mismatch += 1;
                }
            }
        }
    }

    let known = load_known();
    let mut known_hit: BTreeMap<String, (u64, String)> = BTreeMap::new();
    let mut unknown: BTreeMap<String, Vec<(u64, Deviation)>> = BTreeMap::new();
    // which build first showed a signature: the release build if it shows it at all
    let mut sig_build: BTreeMap<String, &'static str> = BTreeMap::new();
    for (build, list) in [("release", &agg.devs), ("arith", &arith.devs)] {
        for (idx, d) in list.iter() {
            if d.prop != prop {
                continue;
            }
            if build == "arith" && sig_build.get(&d.sig) == Some(&"release") {
                continue; // already counted in the main phase
            }
            sig_build.entry(d.sig.clone()).or_insert(build);
            if let Some(k) = known_for(&known, prop, &d.sig) {
                let e = known_hit.entry(k.signature.clone()).or_insert((0, k.what_fails.clone()));
                e.0 += 1;
            } else {
                unknown.entry(d.sig.clone()).or_default().push((*idx, d.clone()));
            }
        }
    }
    let mut harness_errors = agg.harness_errors.clone();
    harness_errors.extend(arith.harness_errors.iter().map(|e| format!("[overflow-checks build] {e}")));
    if !arith_available {
        harness_errors.push("the overflow-checks build of the simulator (sim/target/arith/axsim) is missing: run ./check build".to_string());
    }
    if audit_mismatch > 0 {
        if prop == "C20" {
            unknown.entry("C20|cross_process|event_log".to_string()).or_default().push((
                0,
                Deviation {
                    prop: prop.to_string(),
                    sig: "C20|cross_process|event_log".to_string(),
                    detail: format!("{audit_mismatch} chunk(s) produced a different event log when re-run in another process"),
                },
            ));
        } else {
            harness_errors.push(format!("determinism audit: {audit_mismatch} of {audit_reruns} re-run chunks differ"));
        }
    }

    for (sig, (n, what)) in known_hit.iter() {
        println!("KNOWN-FINDING: property={prop} {what} [signature {sig}, {n} run(s)]");
    }

    // unknown deviations: minimise, write replay, confirm in a fresh process
    let replay_dir = verif_dir().join("replays");
    let _ = std::fs::create_dir_all(&replay_dir);
    if let Ok(rd) = std::fs::read_dir(&replay_dir) {
        for e in rd.flatten() {
            if e.file_name().to_string_lossy().starts_with(&format!("{prop}-")) {
                let _ = std::fs::remove_file(e.path());
            }
        }
    }
    let mut violations = 0u64;
    let mut violation_lines: Vec<String> = Vec::new();
    let mut unknown_sorted: Vec<(&String, &Vec<(u64, Deviation)>)> = unknown.iter().collect();
    unknown_sorted.sort_by(|a, b| b.1.len().cmp(&a.1.len()).then(a.0.cmp(b.0)));
    let mut hang_sigs = 0;
    for (n, (sig, occ)) in unknown_sorted.into_iter().enumerate() {
        if sig.ends_with("hang_watchdog") {
            hang_sigs += 1;
            if hang_sigs > 2 {
                println!("axsim: further hang signature not minimised: {sig} ({} runs)", occ.len());
                violations += 1;
                continue;
            }
        }
        if n >= std::env::var("VERIF_MAX_MINIMISE").ok().and_then(|s| s.parse().ok()).unwrap_or(6usize) {
            println!("axsim: further distinct signatures not minimised: {sig} ({} runs)", occ.len());
            violations += 1;
            continue;
        }
        let (idx, d) = &occ[0];
        if sig == "C20|cross_process|event_log" {
            violations += 1;
            let path = replay_dir.join(sig_file_name(prop, sig));
            let _ = std::fs::write(&path, serde_json::to_string_pretty(&json!({"format":1,"property":prop,"signature":sig,"detail":d.detail,"provenance":{"verif_seed":seed,"tier": if thorough {"thorough"} else {"quick"}},"scenario":Value::Null})).unwrap());
            violation_lines.push(format!("VIOLATION property={prop} replay={}", path.display()));
            continue;
        }
        let sc = eng.gen(prop, thorough, seed, *idx);
        let build: &str = sig_build.get(sig.as_str()).copied().unwrap_or("release");
        // the original must reproduce in a fresh process before anything is reported
        let first = eval_in_child(build, prop, &sc, Duration::from_secs(20));
        let repro = matches!(&first, Ok((devs, _)) if devs.iter().any(|x| &x.sig == sig));
        if !repro {
            harness_errors.push(format!("deviation {sig} of run {idx} did not reproduce in a fresh process"));
            continue;
        }
        let (min_sc, evals) = minimise(build, eng, prop, &sc, sig);
        let final_sc = if reproduces(build, eng, prop, &min_sc, sig, true) { min_sc } else { sc.clone() };
        let path = replay_dir.join(sig_file_name(prop, sig));
        let file = json!({
            "format": 1, "property": prop, "engine": eng.name(), "signature": sig, "detail": d.detail, "build": build,
            "provenance": {"verif_seed": seed, "run_index": idx, "tier": if thorough {"thorough"} else {"quick"}, "runs_with_this_signature": occ.len(), "shrink_evaluations": evals},
            "scenario": final_sc,
        });
        if std::fs::write(&path, serde_json::to_string_pretty(&file).unwrap()).is_err() {
            harness_errors.push(format!("cannot write {}", path.display()));
            continue;
        }
        violations += 1;
        println!("axsim: violation {sig} :: {} ({} run(s), first run {idx})", d.detail, occ.len());
        violation_lines.push(format!("VIOLATION property={prop} replay={}", path.display()));
    }
    for l in violation_lines.iter() {
        println!("{l}");
    }

    let wall = start.elapsed().as_secs_f64();
    // evidence
    let n_samples = 3u64.min(total);
    let mut samples: Vec<Value> = Vec::new();
    for k in 0..n_samples {
        let idx = if n_samples <= 1 { 0 } else { k * (total - 1) / (n_samples - 1) };
        samples.push(json!({"run_index": idx, "scenario": truncate_strings(&eng.gen(prop, thorough, seed, idx))}));
    }
    let (real, stub) = eng.components();
    let mut assumptions: Vec<String> = COMMON_ASSUMPTIONS.iter().map(|s| s.to_string()).collect();
    assumptions.extend(eng.assumptions(prop));
    let zero_probes: Vec<&String> = agg.probes.iter().filter(|(_, v)| **v == 0).map(|(k, _)| k).collect();
    let evidence = json!({
        "property_id": prop,
        "tier": if thorough {"thorough"} else {"quick"},
        "seed": seed,
        "level": eng.level(prop),
        "coverage": {
            "evaluations": agg.runs + arith.runs,
            "overflow_checks_phase": {"what": "every chunk (quick) / every fourth chunk (thorough) is executed a second time by the simulator built with integer-overflow checks (cargo profile `arith`): the arithmetic of a dev / cargo-test artefact", "runs": arith.runs, "guest_instructions": arith.guest_steps, "signatures_seen_only_there": sig_build.iter().filter(|(_, b)| **b == "arith").map(|(s, _)| s.clone()).collect::<Vec<_>>()},
            "distinct_nontrivial": agg.hist.len(),
            "rule": eng.rule(prop),
            "samples": samples,
            "runs": agg.runs,
            "nontrivial_runs": agg.nontrivial_runs,
            "runs_per_hour": if wall > 0.0 { (agg.runs as f64 / wall * 3600.0) as u64 } else { 0 },
            "seeds": {"verif_seed": seed, "derivation": "run i of property P uses mix(VERIF_SEED, P, i): one derived seed per run", "derived_seeds_used": agg.runs, "derived_seeds_per_hour": if wall > 0.0 { (agg.runs as f64 / wall * 3600.0) as u64 } else { 0 }},
            "sim_guest_instructions": agg.guest_steps,
            "sim_events": agg.events,
            "simulated_time_note": "ax has no clock; logical time is counted as executed guest instructions and host/hook events",
            "faults_injected": agg.faults,
            "probes": agg.probes,
            "probes_stuck_at_zero": zero_probes,
            "distinct_histories": agg.hist.len(),
            "unlisted_signatures": unknown.iter().map(|(k, v)| (k.clone(), json!(v.len()))).collect::<BTreeMap<String, Value>>(),
            "known_findings_hit": known_hit.iter().map(|(k, v)| (k.clone(), json!(v.0))).collect::<BTreeMap<String, Value>>(),
            "components": {"real": real, "stub": stub},
            "determinism_audit": {"reruns_in_other_process": audit_reruns, "mismatches": audit_mismatch},
            "workers": workers,
            "hangs_pinned_on_runs": HANGS.load(Ordering::SeqCst),
            "chunks_skipped_after_repeated_hangs": SKIPPED_CHUNKS.load(Ordering::SeqCst),
            "harness_errors": harness_errors,
        },
        "assumptions": assumptions,
        "wall_s": wall,
        "violations": violations,
    });
    let evdir = verif_dir().join("evidence");
    let _ = std::fs::create_dir_all(&evdir);
    let evpath = evdir.join(format!("{prop}.json"));
    if let Err(e) = std::fs::write(&evpath, serde_json::to_string_pretty(&evidence).unwrap()) {
        eprintln!("axsim: cannot write evidence {}: {e}", evpath.display());
        return 2;
    }
    println!(
        "axsim: {prop} runs={} nontrivial={} distinct_histories={} guest_steps={} events={} known_signatures_hit={} violations={violations} harness_errors={} wall={wall:.1}s",
        agg.runs,
        agg.nontrivial_runs,
        agg.hist.len(),
        agg.guest_steps,
        agg.events,
        known_hit.len(),
        harness_errors.len()
    );
    if violations > 0 {
        return 1;
    }
    if !harness_errors.is_empty() {
        for h in harness_errors.iter().take(10) {
            eprintln!("axsim: harness error: {h}");
        }
        return 2;
    }
    0
}
