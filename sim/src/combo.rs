//! C09 is decided by two engines: the API/guest access paths of E1 and the per-form
//! instruction part of E5. This wrapper gives them one run-index space.

use serde_json::{json, Value};

use crate::common::Ctx;
use crate::engine::Engine;

pub struct C09Engine;
pub static C09: C09Engine = C09Engine;

/// C20: program-level determinism (E2) plus the per-form instruction part (E5)
pub struct C20Engine;
pub static C20: C20Engine = C20Engine;

impl Engine for C20Engine {
    fn name(&self) -> &'static str {
        "E2 run-sim + E5 insn-sim"
    }
    fn runs(&self, prop: &str, thorough: bool) -> u64 {
        crate::e2::E2.runs(prop, thorough) + crate::e5::E5.runs(prop, thorough)
    }
    fn gen(&self, prop: &str, thorough: bool, seed: u64, idx: u64) -> Value {
        let n1 = crate::e2::E2.runs(prop, thorough);
        if idx < n1 {
            json!({"e": "e2", "sc": crate::e2::E2.gen(prop, thorough, seed, idx)})
        } else {
            json!({"e": "e5", "sc": crate::e5::E5.gen(prop, thorough, seed, idx - n1)})
        }
    }
    fn exec(&self, prop: &str, sc: &Value, ctx: &mut Ctx) {
        if sc["e"] == "e2" {
            crate::e2::E2.exec(prop, &sc["sc"], ctx)
        } else {
            crate::e5::E5.exec(prop, &sc["sc"], ctx)
        }
    }
    fn shrink(&self, prop: &str, sc: &Value) -> Vec<Value> {
        let e = sc["e"].clone();
        let inner = if e == "e2" { crate::e2::E2.shrink(prop, &sc["sc"]) } else { crate::e5::E5.shrink(prop, &sc["sc"]) };
        inner.into_iter().map(|x| json!({"e": e.clone(), "sc": x})).collect()
    }
    fn crash_context(&self, prop: &str, sc: &Value) -> String {
        if sc["e"] == "e2" {
            crate::e2::E2.crash_context(prop, &sc["sc"])
        } else {
            crate::e5::E5.crash_context(prop, &sc["sc"])
        }
    }
    fn components(&self) -> (Vec<&'static str>, Vec<&'static str>) {
        let (mut a, mut b) = crate::e2::E2.components();
        let (c, d) = crate::e5::E5.components();
        a.extend(c);
        b.extend(d);
        a.dedup();
        b.sort();
        b.dedup();
        (a, b)
    }
    fn rule(&self, prop: &str) -> String {
        format!("{} || {}", crate::e2::E2.rule(prop), crate::e5::E5.rule(prop))
    }
    fn assumptions(&self, prop: &str) -> Vec<String> {
        let mut a = crate::e2::E2.assumptions(prop);
        a.extend(crate::e5::E5.assumptions(prop));
        a
    }
    fn level(&self, _prop: &str) -> &'static str {
        "exploration"
    }
}

impl Engine for C09Engine {
    fn name(&self) -> &'static str {
        "E1 api-sim + E5 insn-sim"
    }
    fn runs(&self, prop: &str, thorough: bool) -> u64 {
        crate::e1::E1.runs(prop, thorough) + crate::e5::E5.runs(prop, thorough)
    }
    fn gen(&self, prop: &str, thorough: bool, seed: u64, idx: u64) -> Value {
        let n1 = crate::e1::E1.runs(prop, thorough);
        if idx < n1 {
            json!({"e": "e1", "sc": crate::e1::E1.gen(prop, thorough, seed, idx)})
        } else {
            json!({"e": "e5", "sc": crate::e5::E5.gen(prop, thorough, seed, idx - n1)})
        }
    }
    fn exec(&self, prop: &str, sc: &Value, ctx: &mut Ctx) {
        if sc["e"] == "e1" {
            crate::e1::E1.exec(prop, &sc["sc"], ctx)
        } else {
            crate::e5::E5.exec(prop, &sc["sc"], ctx)
        }
    }
    fn shrink(&self, prop: &str, sc: &Value) -> Vec<Value> {
        let e = sc["e"].clone();
        let inner = if e == "e1" { crate::e1::E1.shrink(prop, &sc["sc"]) } else { crate::e5::E5.shrink(prop, &sc["sc"]) };
        inner.into_iter().map(|x| json!({"e": e.clone(), "sc": x})).collect()
    }
    fn crash_context(&self, prop: &str, sc: &Value) -> String {
        if sc["e"] == "e1" {
            crate::e1::E1.crash_context(prop, &sc["sc"])
        } else {
            crate::e5::E5.crash_context(prop, &sc["sc"])
        }
    }
    fn components(&self) -> (Vec<&'static str>, Vec<&'static str>) {
        let (mut a, mut b) = crate::e1::E1.components();
        let (c, d) = crate::e5::E5.components();
        a.extend(c);
        b.extend(d);
        a.dedup();
        b.sort();
        b.dedup();
        (a, b)
    }
    fn rule(&self, prop: &str) -> String {
        format!("{} || {}", crate::e1::E1.rule(prop), crate::e5::E5.rule(prop))
    }
    fn assumptions(&self, prop: &str) -> Vec<String> {
        let mut a = crate::e1::E1.assumptions(prop);
        a.extend(crate::e5::E5.assumptions(prop));
        a
    }
    fn level(&self, _prop: &str) -> &'static str {
        "fault_enumeration"
    }
}
