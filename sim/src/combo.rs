//! C09 is decided by two engines: the API/guest access paths of E1 and the per-form
//! instruction part of E5. This wrapper gives them one run-index space.

use serde_json::{json, Value};

use crate::common::Ctx;
use crate::engine::Engine;

pub struct C09Engine;
pub static C09: C09Engine = C09Engine;

/// C10: area histories through the API (E1) plus ELF load as a creation path (E4)
pub struct C10Engine;
pub static C10: C10Engine = C10Engine;

/// C20: program-level determinism (E2) plus the per-form instruction part (E5)
pub struct C20Engine;
pub static C20: C20Engine = C20Engine;

impl C20Engine {
    fn parts(&self) -> [(&'static str, &'static dyn Engine); 4] {
        [("e2", &crate::e2::E2), ("e5", &crate::e5::E5), ("e3", &crate::e3::E3), ("e4", &crate::e4::E4)]
    }
    fn part_of(&self, tag: &str) -> &'static dyn Engine {
        self.parts().iter().find(|p| p.0 == tag).map(|p| p.1).unwrap_or(&crate::e2::E2)
    }
}

impl Engine for C20Engine {
    fn name(&self) -> &'static str {
        "E2 run-sim + E5 insn-sim + E3 sys-sim + E4 load-sim"
    }
    fn runs(&self, prop: &str, thorough: bool) -> u64 {
        self.parts().iter().map(|p| p.1.runs(prop, thorough)).sum()
    }
    fn gen(&self, prop: &str, thorough: bool, seed: u64, idx: u64) -> Value {
        let mut base = 0;
        for (tag, e) in self.parts() {
            let n = e.runs(prop, thorough);
            if idx < base + n {
                return json!({"e": tag, "sc": e.gen(prop, thorough, seed, idx - base)});
            }
            base += n;
        }
        json!({"e": "e2", "sc": crate::e2::E2.gen(prop, thorough, seed, 0)})
    }
    fn exec(&self, prop: &str, sc: &Value, ctx: &mut Ctx) {
        self.part_of(sc["e"].as_str().unwrap_or("e2")).exec(prop, &sc["sc"], ctx)
    }
    fn shrink(&self, prop: &str, sc: &Value) -> Vec<Value> {
        let e = sc["e"].clone();
        self.part_of(e.as_str().unwrap_or("e2")).shrink(prop, &sc["sc"]).into_iter().map(|x| json!({"e": e.clone(), "sc": x})).collect()
    }
    fn crash_context(&self, prop: &str, sc: &Value) -> String {
        self.part_of(sc["e"].as_str().unwrap_or("e2")).crash_context(prop, &sc["sc"])
    }
    fn components(&self) -> (Vec<&'static str>, Vec<&'static str>) {
        let mut a: Vec<&'static str> = Vec::new();
        let mut b: Vec<&'static str> = Vec::new();
        for (_, e) in self.parts() {
            let (x, y) = e.components();
            a.extend(x);
            b.extend(y);
        }
        a.sort();
        a.dedup();
        b.sort();
        b.dedup();
        (a, b)
    }
    fn rule(&self, prop: &str) -> String {
        self.parts().iter().map(|p| p.1.rule(prop)).collect::<Vec<_>>().join(" || ")
    }
    fn assumptions(&self, prop: &str) -> Vec<String> {
        self.parts().iter().flat_map(|p| p.1.assumptions(prop)).collect()
    }
    fn level(&self, _prop: &str) -> &'static str {
        "exploration"
    }
}

impl C09Engine {
    fn parts(&self) -> [(&'static str, &'static dyn Engine); 4] {
        [("e1", &crate::e1::E1), ("e5", &crate::e5::E5), ("e4", &crate::e4::E4), ("e3", &crate::e3::E3)]
    }
    fn part_of(&self, tag: &str) -> &'static dyn Engine {
        self.parts().iter().find(|p| p.0 == tag).map(|p| p.1).unwrap_or(&crate::e1::E1)
    }
}

impl Engine for C09Engine {
    fn name(&self) -> &'static str {
        "E1 api-sim + E5 insn-sim + E4 load-sim + E3 sys-sim"
    }
    fn runs(&self, prop: &str, thorough: bool) -> u64 {
        self.parts().iter().map(|p| p.1.runs(prop, thorough)).sum()
    }
    fn gen(&self, prop: &str, thorough: bool, seed: u64, idx: u64) -> Value {
        let mut base = 0;
        for (tag, e) in self.parts() {
            let n = e.runs(prop, thorough);
            if idx < base + n {
                return json!({"e": tag, "sc": e.gen(prop, thorough, seed, idx - base)});
            }
            base += n;
        }
        json!({"e": "e1", "sc": crate::e1::E1.gen(prop, thorough, seed, 0)})
    }
    fn exec(&self, prop: &str, sc: &Value, ctx: &mut Ctx) {
        self.part_of(sc["e"].as_str().unwrap_or("e1")).exec(prop, &sc["sc"], ctx)
    }
    fn shrink(&self, prop: &str, sc: &Value) -> Vec<Value> {
        let e = sc["e"].clone();
        self.part_of(e.as_str().unwrap_or("e1")).shrink(prop, &sc["sc"]).into_iter().map(|x| json!({"e": e.clone(), "sc": x})).collect()
    }
    fn crash_context(&self, prop: &str, sc: &Value) -> String {
        self.part_of(sc["e"].as_str().unwrap_or("e1")).crash_context(prop, &sc["sc"])
    }
    fn components(&self) -> (Vec<&'static str>, Vec<&'static str>) {
        let mut a: Vec<&'static str> = Vec::new();
        let mut b: Vec<&'static str> = Vec::new();
        for (_, e) in self.parts() {
            let (x, y) = e.components();
            a.extend(x);
            b.extend(y);
        }
        a.sort();
        a.dedup();
        b.sort();
        b.dedup();
        (a, b)
    }
    fn rule(&self, prop: &str) -> String {
        self.parts().iter().map(|p| p.1.rule(prop)).collect::<Vec<_>>().join(" || ")
    }
    fn assumptions(&self, prop: &str) -> Vec<String> {
        self.parts().iter().flat_map(|p| p.1.assumptions(prop)).collect()
    }
    fn level(&self, _prop: &str) -> &'static str {
        "fault_enumeration"
    }
}

impl C10Engine {
    fn parts(&self) -> [(&'static str, &'static dyn Engine); 2] {
        [("e1", &crate::e1::E1), ("e4", &crate::e4::E4)]
    }
    fn part_of(&self, tag: &str) -> &'static dyn Engine {
        self.parts().iter().find(|p| p.0 == tag).map(|p| p.1).unwrap_or(&crate::e1::E1)
    }
}

impl Engine for C10Engine {
    fn name(&self) -> &'static str {
        "E1 api-sim + E4 load-sim"
    }
    fn runs(&self, prop: &str, thorough: bool) -> u64 {
        self.parts().iter().map(|p| p.1.runs(prop, thorough)).sum()
    }
    fn gen(&self, prop: &str, thorough: bool, seed: u64, idx: u64) -> Value {
        let mut base = 0;
        for (tag, e) in self.parts() {
            let n = e.runs(prop, thorough);
            if idx < base + n {
                return json!({"e": tag, "sc": e.gen(prop, thorough, seed, idx - base)});
            }
            base += n;
        }
        json!({"e": "e1", "sc": crate::e1::E1.gen(prop, thorough, seed, 0)})
    }
    fn exec(&self, prop: &str, sc: &Value, ctx: &mut Ctx) {
        self.part_of(sc["e"].as_str().unwrap_or("e1")).exec(prop, &sc["sc"], ctx)
    }
    fn shrink(&self, prop: &str, sc: &Value) -> Vec<Value> {
        let e = sc["e"].clone();
        self.part_of(e.as_str().unwrap_or("e1")).shrink(prop, &sc["sc"]).into_iter().map(|x| json!({"e": e.clone(), "sc": x})).collect()
    }
    fn crash_context(&self, prop: &str, sc: &Value) -> String {
        self.part_of(sc["e"].as_str().unwrap_or("e1")).crash_context(prop, &sc["sc"])
    }
    fn components(&self) -> (Vec<&'static str>, Vec<&'static str>) {
        let mut a: Vec<&'static str> = Vec::new();
        let mut b: Vec<&'static str> = Vec::new();
        for (_, e) in self.parts() {
            let (x, y) = e.components();
            a.extend(x);
            b.extend(y);
        }
        a.sort();
        a.dedup();
        b.sort();
        b.dedup();
        (a, b)
    }
    fn rule(&self, prop: &str) -> String {
        self.parts().iter().map(|p| p.1.rule(prop)).collect::<Vec<_>>().join(" || ")
    }
    fn assumptions(&self, prop: &str) -> Vec<String> {
        self.parts().iter().flat_map(|p| p.1.assumptions(prop)).collect()
    }
    fn level(&self, _prop: &str) -> &'static str {
        "exploration"
    }
}

/// C19: single steps on arbitrary bytes and states (E5) plus multi-step guest programs against the built-in
/// brk / pipe handlers (E3), judged for crashes and hangs only
pub struct C19Engine;
pub static C19: C19Engine = C19Engine;

impl C19Engine {
    fn parts(&self) -> [(&'static str, &'static dyn Engine); 2] {
        [("e5", &crate::e5::E5), ("e3", &crate::e3::E3)]
    }
    fn part_of(&self, tag: &str) -> &'static dyn Engine {
        self.parts().iter().find(|p| p.0 == tag).map(|p| p.1).unwrap_or(&crate::e5::E5)
    }
}

impl Engine for C19Engine {
    fn name(&self) -> &'static str {
        "E5 insn-sim + E3 sys-sim"
    }
    fn runs(&self, prop: &str, thorough: bool) -> u64 {
        self.parts().iter().map(|p| p.1.runs(prop, thorough)).sum()
    }
    fn gen(&self, prop: &str, thorough: bool, seed: u64, idx: u64) -> Value {
        let mut base = 0;
        for (tag, e) in self.parts() {
            let n = e.runs(prop, thorough);
            if idx < base + n {
                return json!({"e": tag, "sc": e.gen(prop, thorough, seed, idx - base)});
            }
            base += n;
        }
        json!({"e": "e5", "sc": crate::e5::E5.gen(prop, thorough, seed, 0)})
    }
    fn exec(&self, prop: &str, sc: &Value, ctx: &mut Ctx) {
        if sc.get("e").is_none() {
            // replay files written before the multi-step part existed hold a bare E5 scenario
            return crate::e5::E5.exec(prop, sc, ctx);
        }
        self.part_of(sc["e"].as_str().unwrap_or("e5")).exec(prop, &sc["sc"], ctx)
    }
    fn shrink(&self, prop: &str, sc: &Value) -> Vec<Value> {
        if sc.get("e").is_none() {
            return crate::e5::E5.shrink(prop, sc);
        }
        let e = sc["e"].clone();
        self.part_of(e.as_str().unwrap_or("e5")).shrink(prop, &sc["sc"]).into_iter().map(|x| json!({"e": e.clone(), "sc": x})).collect()
    }
    fn crash_context(&self, prop: &str, sc: &Value) -> String {
        if sc.get("e").is_none() {
            return crate::e5::E5.crash_context(prop, sc);
        }
        self.part_of(sc["e"].as_str().unwrap_or("e5")).crash_context(prop, &sc["sc"])
    }
    fn components(&self) -> (Vec<&'static str>, Vec<&'static str>) {
        let mut a: Vec<&'static str> = Vec::new();
        let mut b: Vec<&'static str> = Vec::new();
        for (_, e) in self.parts() {
            let (x, y) = e.components();
            a.extend(x);
            b.extend(y);
        }
        a.sort();
        a.dedup();
        b.sort();
        b.dedup();
        (a, b)
    }
    fn rule(&self, prop: &str) -> String {
        self.parts().iter().map(|p| p.1.rule(prop)).collect::<Vec<_>>().join(" || ")
    }
    fn assumptions(&self, prop: &str) -> Vec<String> {
        self.parts().iter().flat_map(|p| p.1.assumptions(prop)).collect()
    }
    fn level(&self, prop: &str) -> &'static str {
        crate::e5::E5.level(prop)
    }
}
