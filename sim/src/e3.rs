//! E3 sys-sim: a guest program that itself issues brk / pipe / read / write syscalls (arguments
//! loaded by guest code, descriptors read back from guest memory) against the real built-in
//! handlers, plus a user Syscall hook. Serves C13 (break model) and C14 (queue model).

use std::cell::RefCell;
use std::collections::{BTreeMap, VecDeque};
use std::rc::Rc;

use ax_x86::axecutor::Axecutor;
use ax_x86::helpers::syscalls::Syscall;
use ax_x86::state::hooks::HookResult;
use ax_x86::state::registers::SupportedRegister as SR;
use serde::{Deserialize, Serialize};
use serde_json::Value;

use crate::common::*;
use crate::e1::intersects;
use crate::engine::Engine;
use crate::hooks::{set_dispatch, supported_by_name, tramp_ref};
use crate::rng::{mix, Rng};

pub const CODE: u64 = 0x40_0000;
pub const DATA: u64 = 0x20_0000;
pub const DATA_LEN: u64 = 0x4000;
pub const FDT: u64 = 0x21_0000;
pub const RO: u64 = 0x22_0000;
pub const WO: u64 = 0x23_0000;
pub const SIDE_LEN: u64 = 0x400;

#[derive(Serialize, Deserialize, Clone, Debug, PartialEq)]
#[serde(tag = "op")]
pub enum Op {
    // C14
    Pipe { slot: u64, buf: String }, // buf: ok | unmapped | readonly
    Write { fd: String, slot: u64, imm: u64, buf: String, off: u64, n: u64 }, // fd: r | w | imm
    Read { fd: String, slot: u64, imm: u64, buf: String, off: u64, n: u64 },
    Other { nr: u64, arg: u64 },
    // C13
    Brk0,
    BrkRel { delta: i64 },
    Store { off: u64, val: u64 },
    Load { off: u64 },
    /// host action between two guest instructions: a new area `gap` bytes behind the current end of the
    /// heap area (so it comes *after* the heap in ax's area list); the guest executes a NOP
    Block {
        gap: u64,
        len: u64,
        /// the host asks for an area *inside* the heap instead (offset gap modulo the heap's length): must be refused
        #[serde(default)]
        inside: bool,
    },
    /// brk with an absolute argument (generated as the guest's very first call, before any query)
    BrkAbs { arg: u64 },
    /// pipe programs: the previous read / write is issued once more by a second `syscall` instruction directly
    /// behind the first - no guest instruction in between - after the *host* pointed RSI at `DATA + off` (and
    /// restored the call number in RAX): "fault, repair, retry" if the previous call failed on its buffer, a plain
    /// repetition otherwise
    Retry { off: u64 },
    /// another host action between two guest instructions of a brk program (the guest executes a NOP):
    /// "late_pipe" / "late_others" - the host installs further built-in handlers with a second handle_syscalls
    /// call; "prot_rwx" / "prot_rw" - it changes the rights of the heap area, keeping read+write. None of this
    /// may disturb the heap
    Host { what: String },
}

#[derive(Serialize, Deserialize, Clone, Debug, PartialEq)]
pub struct Sc {
    pub kind: String, // pipe | brk
    pub ops: Vec<Op>,
    pub blockers: Vec<(u64, u64)>,
    pub rng_values: Vec<u64>,
    pub rng_seed: u64,
    pub user_hook: String, // after | before | none
    pub src_seed: u64,
    #[serde(default)]
    pub high: bool,
}

pub struct E3Engine;
pub static E3: E3Engine = E3Engine;

thread_local! {
    /// C20: seed of the RNG-seam stream behind the constructor (None: the scenario's own)
    static CTOR_SEED: RefCell<Option<u64>> = RefCell::new(None);
    /// C20: what the guest and the host can observe of a run, in order
    static TRACE: RefCell<Option<Vec<String>>> = RefCell::new(None);
    /// C20: serve the pipe handler other descriptor numbers (a bijection on the drawn values that changes
    /// their order) and leave the descriptor table out of the memory observation
    static FD_PERM: RefCell<(bool, bool)> = RefCell::new((false, false)); // (permute draws, hide descriptor table)
}

fn trace_push(s: String) {
    TRACE.with(|t| {
        if let Some(v) = t.borrow_mut().as_mut() {
            v.push(s);
        }
    });
}

/// C20, syscall part: the same guest program against the built-in handlers on two machines whose
/// constructors drew different random register contents (descriptor draws are served identically).
pub fn run_c20(sc: &Sc, ctx: &mut Ctx) {
    let mut traces: Vec<Vec<String>> = Vec::new();
    for seed in [sc.rng_seed ^ 0xA1, sc.rng_seed ^ 0xB2_0000] {
        CTOR_SEED.with(|c| *c.borrow_mut() = Some(seed));
        TRACE.with(|t| *t.borrow_mut() = Some(Vec::new()));
        let mut scratch = Ctx::new();
        run("C20", sc, &mut scratch);
        ctx.guest_steps += scratch.guest_steps;
        ctx.events += scratch.events;
        ctx.hist = scratch.hist;
        ctx.harness_errors.extend(scratch.harness_errors);
        traces.push(TRACE.with(|t| t.borrow_mut().take()).unwrap_or_default());
    }
    CTOR_SEED.with(|c| *c.borrow_mut() = None);
    ctx.nontrivial = true;
    ctx.fault("rng_stream_varied");
    if traces[0] != traces[1] {
        let k = traces[0].iter().zip(traces[1].iter()).position(|(a, b)| a != b).unwrap_or(traces[0].len().min(traces[1].len()));
        let what = traces[0].get(k).map(|s| s.split(':').next().unwrap_or("?").to_string()).unwrap_or_else(|| "length".into());
        ctx.dev("C20", format!("C20|sys|{}|{what}", sc.kind), format!("two machines given the same program and syscalls diverge at observation {k}: {:?} vs {:?}", traces[0].get(k), traces[1].get(k)));
    }
    // the one exception the statement makes - descriptor numbers - must stay an exception: with other
    // numbers handed out (in another order) everything that is not a descriptor number is unchanged.
    // Judged for programs whose every descriptor argument comes from the table pipe() filled.
    let only_table_fds = sc.kind == "pipe" && sc.ops.iter().all(|o| match o {
        Op::Write { fd, buf, .. } | Op::Read { fd, buf, .. } => fd != "imm" && buf == "ok",
        Op::Pipe { buf, .. } => buf == "ok",
        _ => true,
    });
    let distinct_draws = {
        let mut d: Vec<u64> = sc.rng_values.iter().map(|v| v & 0xffff).collect();
        d.sort();
        d.windows(2).all(|w| w[0] != w[1])
    };
    if only_table_fds && distinct_draws {
        let mut t2: Vec<Vec<String>> = Vec::new();
        for permute in [false, true] {
            CTOR_SEED.with(|c| *c.borrow_mut() = Some(sc.rng_seed ^ 0xA1));
            FD_PERM.with(|f| *f.borrow_mut() = (permute, true));
            TRACE.with(|t| *t.borrow_mut() = Some(Vec::new()));
            let mut scratch = Ctx::new();
            run("C20", sc, &mut scratch);
            ctx.guest_steps += scratch.guest_steps;
            t2.push(TRACE.with(|t| t.borrow_mut().take()).unwrap_or_default());
        }
        CTOR_SEED.with(|c| *c.borrow_mut() = None);
        FD_PERM.with(|f| *f.borrow_mut() = (false, false));
        ctx.fault("descriptor_numbers_varied");
        if t2[0] != t2[1] {
            let k = t2[0].iter().zip(t2[1].iter()).position(|(a, b)| a != b).unwrap_or(t2[0].len().min(t2[1].len()));
            let what = t2[0].get(k).map(|s| s.split(':').next().unwrap_or("?").to_string()).unwrap_or_else(|| "length".into());
            ctx.dev("C20", format!("C20|sys|pipe|descriptor_numbers_leak|{what}"), format!("with other descriptor numbers handed out the run differs in something that is not a descriptor number, at observation {k}: {:?} vs {:?}", t2[0].get(k), t2[1].get(k)).chars().take(600).collect());
        }
    }
    ctx.log_u64(crate::rng::fnv1a(traces[0].join("|").as_bytes()));
}

// ------------------------------------------------------------------------------------------
// generator
// ------------------------------------------------------------------------------------------

fn gen_pipe(r: &mut Rng, thorough: bool) -> Sc {
    gen_pipe_cfg(r, thorough, false)
}

/// `perm`: the C09 part - always the fault configuration, and every third buffer lies in an area that
/// forbids the access
fn gen_pipe_cfg(r: &mut Rng, thorough: bool, perm: bool) -> Sc {
    let n_ops = if thorough { r.range(4, 60) } else { r.range(4, 30) };
    let fault_cfg = perm || r.chance(1, 2); // fault-free and fault-injecting configurations are separate
    let bad = if perm { 3 } else { 8 };
    let max_n: u64 = *r.pick(&[8u64, 64, 300, 300, 2000, 2000, 16000]);
    let mut ops = Vec::new();
    let mut pipes = 0u64;
    for _ in 0..n_ops {
        let w = if pipes == 0 { [10u32, 1, 1, 1] } else { [2, 10, 10, 1] };
        match r.weighted(&w) {
            0 => {
                if pipes < 6 {
                    let buf = if fault_cfg && r.chance(1, bad) { *r.pick(&["unmapped", "readonly"]) } else { "ok" };
                    ops.push(Op::Pipe { slot: pipes, buf: buf.to_string() });
                    if buf == "ok" {
                        pipes += 1;
                    }
                }
            }
            k @ (1 | 2) => {
                let slot = r.below(pipes.max(1));
                let fd = match r.below(13) {
                    0 => "imm",
                    12 => {
                        if k == 1 {
                            "whi"
                        } else {
                            "rhi"
                        }
                    }
                    1 => {
                        if k == 1 {
                            "r"
                        } else {
                            "w"
                        }
                    } // wrong end
                    _ => {
                        if k == 1 {
                            "w"
                        } else {
                            "r"
                        }
                    }
                };
                let imm = *r.pick(&[0u64, 1, 2, 3, 1023, 1024, 70000, u64::MAX]);
                let n = match r.below(8) {
                    0 => 0,
                    1 => 1,
                    _ => r.range(0, max_n),
                };
                let buf = if fault_cfg && r.chance(1, bad) { *r.pick(&["unmapped", "readonly", "writeonly", "straddle"]) } else { "ok" };
                let off = r.below(DATA_LEN - n.min(DATA_LEN - 1));
                let retry = r.chance(1, 5);
                let retry_off = r.below(DATA_LEN - n.min(DATA_LEN - 1));
                if k == 1 {
                    ops.push(Op::Write { fd: fd.to_string(), slot, imm, buf: buf.to_string(), off, n });
                    if retry {
                        ops.push(Op::Retry { off: retry_off });
                    }
                } else {
                    // reads: count below / at / above what is available is decided at run time; bias to small and large
                    let n = if r.chance(1, 4) { n * 4 + 1 } else { n };
                    // "at most the requested": a request far beyond anything a pipe can hold (the usual
                    // read-everything idiom, up to counts with the top bit set) still returns what is available
                    let n = if r.chance(1, 16) { *r.pick(&[u64::MAX, 1u64 << 63, (1u64 << 63) + 5, (1u64 << 63) - 1, 1u64 << 32, (1u64 << 31) + 1, 0xffff_ffff]) } else { n };
                    let off = r.below(DATA_LEN - n.min(DATA_LEN - 1));
                    ops.push(Op::Read { fd: fd.to_string(), slot, imm, buf: buf.to_string(), off, n });
                    if retry {
                        ops.push(Op::Retry { off: retry_off });
                    }
                }
            }
            _ => ops.push(Op::Other { nr: *r.pick(&[0u64, 1, 2, 3, 39, 60, 231]), arg: r.below(5) }),
        }
    }
    // RNG seam: descriptor draws. Fault configuration: sometimes repeat a live descriptor or make read end = write end.
    let mut vals: Vec<u64> = Vec::new();
    for k in 0..16u64 {
        let mut v = r.next();
        if fault_cfg && k >= 2 && r.chance(1, 6) {
            v = vals[r.usize(vals.len())];
        }
        if fault_cfg && k % 2 == 1 && r.chance(1, 12) {
            v = vals[vals.len() - 1];
        }
        vals.push(v);
    }
    // some calls on "never issued" descriptors use the very number a *later* pipe() is going to hand out
    let mut np = 0usize;
    for op in ops.iter_mut() {
        match op {
            Op::Pipe { .. } => np += 1,
            Op::Write { fd, imm, .. } | Op::Read { fd, imm, .. } if fd == "imm" && 2 * np + 1 < vals.len() && r.chance(1, 3) => {
                *imm = (vals[2 * np + r.usize(2)] as u16) as u64 + 1024;
            }
            _ => {}
        }
    }
    Sc { kind: "pipe".into(), ops, blockers: vec![], rng_values: vals, rng_seed: r.next(), user_hook: r.pick(&["after", "after", "before", "none"]).to_string(), src_seed: r.next(), high: false }
}

fn gen_brk(r: &mut Rng, thorough: bool, big: bool) -> Sc {
    let n_ops = if thorough { r.range(4, 50) } else { r.range(4, 24) };
    let mut ops = vec![Op::Brk0];
    if r.chance(1, 8) {
        // the guest's first call is not a query
        ops.insert(0, Op::BrkAbs { arg: *r.pick(&[1u64, 0x1000, 0x1800, 0x2000, 0x2001, 0x3000, 0x5000, 0x1_0000, 0x40_0000, 1 << 40]) });
    }
    let max_grow: i64 = *r.pick(&[0x100i64, 0x1000, 0x3000, 0x10000, 0x100000, 0x1000000]);
    let mut cur: i64 = 0;
    let w_block = *r.pick(&[0u32, 0, 1, 2]);
    for _ in 0..n_ops {
        match r.weighted(&[2, 6, 8, 6, w_block]) {
            4 if r.chance(1, 4) => ops.push(Op::Host { what: r.pick(&["late_pipe", "late_others", "prot_rwx", "prot_rw", "late_pipe", "prot_rwx"]).to_string() }),
            4 if r.chance(1, 3) => ops.push(Op::Block { gap: r.below(0x4000), len: *r.pick(&[1u64, 0x10, 0x100, 0x1000]), inside: true }),
            4 => ops.push(Op::Block { gap: *r.pick(&[0u64, 0, 1, 0x10, 0x800, 0x1000, 0x3000]), len: *r.pick(&[1u64, 0x10, 0x100, 0x1000]), inside: false }),
            0 => ops.push(Op::Brk0),
            1 => {
                let d = match r.below(8) {
                    0 => cur + 1,
                    1 => cur + r.range(1, max_grow as u64) as i64,
                    2 => (cur - r.range(0, (cur.max(1)) as u64) as i64).max(0), // shrink
                    3 => (cur + 0xfff) & !0xfff,
                    4 => 0,
                    5 => r.range(0, max_grow as u64) as i64,
                    6 => cur + *r.pick(&[0x1000i64, 0x2000, 0x8000]),
                    _ => cur + r.range(1, 64) as i64,
                };
                let d = d.min(0x1000000);
                if r.chance(1, 12) {
                    // below the initial break: nothing is demanded of the call itself, but the heap must keep working afterwards
                    let neg = *r.pick(&[-1i64, -0x800, -0xfff, -0x1000, -0x1001, -0x2000]);
                    ops.push(Op::BrkRel { delta: neg });
                    cur = 0;
                    continue;
                }
                ops.push(Op::BrkRel { delta: d });
                cur = d;
            }
            2 => {
                let lim = (cur.max(8)) as u64;
                let off = match r.below(5) {
                    0 => 0,
                    1 => lim.saturating_sub(8),
                    _ => r.below(lim.saturating_sub(7).max(1)),
                };
                ops.push(Op::Store { off, val: r.next() | 1 });
            }
            _ => {
                let lim = (cur.max(8)) as u64;
                ops.push(Op::Load { off: r.below(lim.saturating_sub(7).max(1)) });
            }
        }
    }
    // one run in 96: the guest asks for a heap at the handler's resource limit - exactly 256 MiB, one byte or one
    // page less, one byte or one page more (only the last two may be refused) - uses its top and gives it back
    if !big && r.chance(1, 96) {
        let k = *r.pick(&[0i64, 0, 0, -1, 1, -0x1000, 0x1000]);
        let delta = HEAP_CAP as i64 - 0x1000 + k; // relative to the initial break = heap start + 0x1000
        // behind the first query (the guest keeps the initial break in RBX from there on)
        let first_q = ops.iter().position(|o| matches!(o, Op::Brk0)).unwrap_or(0);
        let at = first_q + 1 + r.below((ops.len() - first_q) as u64) as usize;
        let val = r.next() | 1;
        let tail = vec![
            Op::BrkRel { delta },
            Op::Store { off: (delta - 8).min(HEAP_CAP as i64 - 0x1000 - 8) as u64, val },
            Op::Load { off: (delta - 8).min(HEAP_CAP as i64 - 0x1000 - 8) as u64 },
            Op::Brk0,
            Op::BrkRel { delta: *r.pick(&[0i64, 0x10, 0x1000, 0x2345]) },
        ];
        let at = at.min(ops.len());
        for (i, o) in tail.into_iter().enumerate() {
            ops.insert(at + i, o);
        }
    }
    // pre-existing areas at and around the addresses the heap placement probes first
    let mut blockers: Vec<(u64, u64)> = Vec::new();
    let nb = r.below(6);
    for _ in 0..nb {
        let start = 0x1000 + r.below(12) * 0x1000 + *r.pick(&[0u64, 0, 0x800, 0x10]);
        let len = *r.pick(&[0u64, 0x10, 0x100, 0x800, 0x1000, 0x1800, 0x4000]);
        if !blockers.iter().any(|b| intersects(start, len, b.0, b.1) || b.0 == start) {
            blockers.push((start, len));
        }
    }
    if big {
        // a long run of occupied probe slots in front of the heap: 256 KiB .. 2 MiB from the first probe address
        blockers.retain(|b| b.0 >= 0x40_0000);
        blockers.insert(0, (0x1000, *r.pick(&[0x4_0000u64, 0x10_0000, 0x1F_0000])));
    }
    // one layout in 48: every gap below the end of the program image is taken, so that the heap lands
    // above all other areas and is the topmost one
    let high = !big && r.chance(1, 48);
    Sc { kind: "brk".into(), ops, blockers, rng_values: vec![], rng_seed: r.next(), user_hook: r.pick(&["after", "none", "none"]).to_string(), src_seed: r.next(), high }
}

// ------------------------------------------------------------------------------------------
// program
// ------------------------------------------------------------------------------------------

mod asm {
    use super::*;
    use iced_x86::code_asm::*;

    fn buf_addr(buf: &str, off: u64, n: u64) -> u64 {
        match buf {
            "unmapped" => 0xdead_0000 + off,
            "readonly" => RO + off % (SIDE_LEN / 2),
            "writeonly" => WO + off % (SIDE_LEN / 2),
            "straddle" => DATA + DATA_LEN - (n / 2).min(DATA_LEN),
            _ => DATA + off,
        }
    }

    /// assemble the program; returns (code, for every op the address of the instruction that performs it)
    pub fn assemble(sc: &Sc) -> Result<(Vec<u8>, Vec<u64>), iced_x86::IcedError> {
        let mut a = CodeAssembler::new(64)?;
        let mut marks: Vec<usize> = Vec::new(); // instruction index of the performing instruction
        let mut first_brk0 = true;
        for op in sc.ops.iter() {
            match op {
                Op::Pipe { slot, buf } => {
                    a.mov(eax, 22u32)?;
                    let p = match buf.as_str() {
                        "unmapped" => 0xdead_0000u64,
                        "readonly" => RO,
                        _ => FDT + 16 * slot,
                    };
                    a.mov(rdi, p)?;
                    marks.push(a.instructions().len());
                    a.syscall()?;
                }
                Op::Write { fd, slot, imm, buf, off, n } | Op::Read { fd, slot, imm, buf, off, n } => {
                    let is_write = matches!(op, Op::Write { .. });
                    match fd.as_str() {
                        "imm" => a.mov(rdi, *imm)?,
                        "r" | "rhi" => {
                            a.mov(rbx, FDT + 16 * slot)?;
                            a.mov(rdi, qword_ptr(rbx))?;
                        }
                        _ => {
                            a.mov(rbx, FDT + 16 * slot)?;
                            a.mov(rdi, qword_ptr(rbx + 8))?;
                        }
                    }
                    if fd.ends_with("hi") {
                        // a different descriptor that agrees with a live one in its low 32 bits
                        // (descriptors are below 2^17, so adding 2^32 sets bit 32; ADD is an implemented form)
                        a.mov(rbx, 0x1_0000_0000u64)?;
                        a.add(rdi, rbx)?;
                    }
                    a.mov(rsi, buf_addr(buf, *off, *n))?;
                    a.mov(rdx, *n)?;
                    a.mov(eax, if is_write { 1u32 } else { 0u32 })?;
                    marks.push(a.instructions().len());
                    a.syscall()?;
                }
                Op::Other { nr, arg } => {
                    a.mov(rdi, *arg)?;
                    a.mov(eax, *nr as u32)?;
                    marks.push(a.instructions().len());
                    a.syscall()?;
                }
                Op::Brk0 => {
                    a.mov(eax, 12u32)?;
                    a.xor(edi, edi)?;
                    marks.push(a.instructions().len());
                    a.syscall()?;
                    if first_brk0 {
                        a.mov(rbx, rax)?;
                        first_brk0 = false;
                    }
                }
                Op::BrkRel { delta } => {
                    a.mov(eax, 12u32)?;
                    a.lea(rdi, qword_ptr(rbx + *delta as i32))?;
                    marks.push(a.instructions().len());
                    a.syscall()?;
                }
                Op::Store { off, val } => {
                    a.mov(rcx, *val)?;
                    marks.push(a.instructions().len());
                    a.mov(qword_ptr(rbx + *off as i32), rcx)?;
                }
                Op::Load { off } => {
                    marks.push(a.instructions().len());
                    a.mov(rcx, qword_ptr(rbx + *off as i32))?;
                }
                Op::Block { .. } | Op::Host { .. } => {
                    marks.push(a.instructions().len());
                    a.nop()?;
                }
                Op::Retry { .. } => {
                    marks.push(a.instructions().len());
                    a.syscall()?;
                }
                Op::BrkAbs { arg } => {
                    a.mov(eax, 12u32)?;
                    a.mov(rdi, *arg)?;
                    marks.push(a.instructions().len());
                    a.syscall()?;
                }
            }
        }
        a.nop()?;
        a.nop()?;
        let res = a.assemble_options(CODE, iced_x86::BlockEncoderOptions::RETURN_NEW_INSTRUCTION_OFFSETS)?;
        let offs = &res.inner.new_instruction_offsets;
        let addrs = marks.iter().map(|i| CODE + offs[*i] as u64).collect();
        Ok((res.inner.code_buffer, addrs))
    }

}
use asm::assemble;

// ------------------------------------------------------------------------------------------
// executor
// ------------------------------------------------------------------------------------------

#[derive(Clone, Debug)]
struct MPipe {
    r: u64,
    w: u64,
    q: VecDeque<u8>,
}

/// the contents of areas above this size are not copied into snapshots (a heap at the handler's 256 MiB limit
/// would otherwise be copied twice per operation); nothing compares the contents of such an area
const SNAPSHOT_DATA_MAX: usize = 32 << 20;

/// the largest heap the built-in brk handler provides (its documented resource limit, introduced with the repair
/// of the aborting 1 TiB request): a heap of exactly this size must be granted, a larger one may be refused
const HEAP_CAP: u64 = 0x1000_0000;

fn area_snapshot(ax: &Axecutor) -> Vec<(u64, u64, u32, Vec<u8>)> {
    let mut v: Vec<(u64, u64, u32, Vec<u8>)> = if ax.verif_area_extents().iter().any(|e| e.3 > SNAPSHOT_DATA_MAX) {
        ax.verif_area_extents()
            .into_iter()
            .map(|(st, len, acc, dl)| (st, len, acc, if dl > SNAPSHOT_DATA_MAX { Vec::new() } else { ax.verif_area_data(st).map(|d| d.to_vec()).unwrap_or_default() }))
            .collect()
    } else {
        ax.verif_areas().into_iter().map(|a| (a.start, a.length, a.access, a.data)).collect()
    };
    v.sort();
    v
}

fn range_ok(areas: &[(u64, u64, u32, Vec<u8>)], addr: u64, n: u64, need: u32) -> bool {
    let end = addr as u128 + n as u128;
    areas.iter().any(|a| a.1 > 0 && a.0 <= addr && end <= a.0 as u128 + a.1 as u128 && a.2 & need == need)
}

fn read_mem(areas: &[(u64, u64, u32, Vec<u8>)], addr: u64, n: u64) -> Option<Vec<u8>> {
    let end = addr as u128 + n as u128;
    for a in areas {
        if a.1 > 0 && a.0 <= addr && end <= a.0 as u128 + a.1 as u128 {
            let o = (addr - a.0) as usize;
            return Some(a.3[o..o + n as usize].to_vec());
        }
    }
    None
}

pub fn run(_prop: &str, sc: &Sc, ctx: &mut Ctx) {
    let names: &[&str] = if sc.kind == "pipe" { &["partial_pipe_read", "read_from_empty_pipe", "read_end_equals_write_end", "user_hook_saw_non_pipe_call"] } else { &["brk_grow_ok", "brk_shrink", "brk_regrow", "heap_not_at_first_probe"] };
    for p in names {
        ctx.probes.entry(p.to_string()).or_insert(0);
    }
    let (code, marks) = match assemble(sc) {
        Ok(x) => x,
        Err(e) => {
            ctx.harness_errors.push(format!("assembler: {e}"));
            return;
        }
    };
    install_ax_rng_values(vec![], CTOR_SEED.with(|c| *c.borrow()).unwrap_or(sc.rng_seed));
    let mut ax = match catch(|| Axecutor::new(&code, CODE, CODE)) {
        Ok(Ok(a)) => a,
        _ => {
            ctx.harness_errors.push("cannot construct the E3 machine".into());
            return;
        }
    };
    // descriptor draws come from the scenario (after the constructor consumed its own share)
    let (permute, hide_fdt) = FD_PERM.with(|f| *f.borrow());
    let draws: Vec<u64> = if permute {
        // descriptor = (low 16 bits of the draw) + 1024: an odd multiplier is a bijection on 16 bits, so
        // equal draws stay equal and distinct ones distinct, but their numeric order changes
        sc.rng_values.iter().map(|v| (v & !0xffff) | ((v & 0xffff).wrapping_mul(40503).wrapping_add(12345) & 0xffff)).collect()
    } else {
        sc.rng_values.clone()
    };
    install_ax_rng_values(draws, sc.rng_seed);
    let setup: Result<Result<(), String>, Panicked> = catch(|| {
        let src = Rng::new(sc.src_seed).bytes(DATA_LEN as usize);
        ax.mem_init_area(DATA, src).map_err(|e| e.to_string())?;
        ax.mem_init_zero(FDT, 0x100).map_err(|e| e.to_string())?;
        ax.mem_init_area(RO, vec![0x11; SIDE_LEN as usize]).map_err(|e| e.to_string())?;
        ax.mem_prot(RO, 1).map_err(|e| e.to_string())?;
        ax.mem_init_area(WO, vec![0x22; SIDE_LEN as usize]).map_err(|e| e.to_string())?;
        ax.mem_prot(WO, 2).map_err(|e| e.to_string())?;
        for (s, l) in sc.blockers.iter() {
            ax.mem_init_zero(*s, *l).map_err(|e| e.to_string())?;
        }
        if sc.high {
            let mut ext: Vec<(u64, u64)> = ax.verif_area_extents().iter().map(|a| (a.0, a.1)).collect();
            ext.sort();
            let top = ext.iter().map(|a| a.0 + a.1).max().unwrap_or(0x1000);
            let top = (top + 0xfff) & !0xfff;
            let mut at = 0x1000u64;
            for (s0, l0) in ext.iter().chain(std::iter::once(&(top, 0))) {
                if *s0 > at {
                    ax.mem_init_zero(at, *s0 - at).map_err(|e| e.to_string())?;
                }
                at = at.max(*s0 + *l0);
            }
        }
        Ok(())
    });
    if !matches!(setup, Ok(Ok(()))) {
        ctx.harness_errors.push(format!("E3 setup failed: {setup:?}"));
        return;
    }
    // user hook: logs (rax, rdi) of every syscall it sees
    let seen: Rc<RefCell<Vec<(u64, u64)>>> = Rc::new(RefCell::new(Vec::new()));
    let after_mode = sc.user_hook == "after";
    {
        let seen = seen.clone();
        set_dispatch(Some(Box::new(move |_id, ax, _m| {
            let rax = ax.reg_read_64(SR::RAX).unwrap_or(0);
            let rdi = ax.reg_read_64(SR::RDI).unwrap_or(0);
            seen.borrow_mut().push((rax, rdi));
            if after_mode {
                let _ = ax.reg_write_64(SR::RAX, 0x5EED);
                Ok(HookResult::Handled)
            } else {
                Ok(HookResult::Unhandled)
            }
        })));
    }
    let sm = supported_by_name("Syscall").unwrap().1;
    let builtin: Vec<Syscall> = if sc.kind == "pipe" { vec![Syscall::Pipe] } else { vec![Syscall::Brk] };
    let reg: Result<Result<(), String>, Panicked> = catch(|| {
        if sc.user_hook == "before" {
            ax.hook_before_mnemonic_native(sm, tramp_ref(0)).map_err(|e| e.to_string())?;
        }
        ax.handle_syscalls(builtin.clone()).map_err(|e| e.to_string())?;
        if sc.user_hook == "after" {
            ax.hook_before_mnemonic_native(sm, tramp_ref(0)).map_err(|e| e.to_string())?;
        }
        Ok(())
    });
    if !matches!(reg, Ok(Ok(()))) {
        ctx.harness_errors.push(format!("E3 hook registration failed: {reg:?}"));
        set_dispatch(None);
        return;
    }
    if sc.kind == "pipe" {
        run_pipe(sc, &mut ax, &marks, &seen, ctx);
    } else {
        run_brk(sc, &mut ax, &marks, &seen, ctx);
    }
    ctx.log_u64(observe(&ax).digest());
    {
        let mut ext = ax.verif_area_extents();
        ext.sort();
        trace_push(format!("areas:{ext:?}"));
        let o = observe(&ax);
        // RAX is written by every program; the other registers only by some (and are compared per operation where they are)
        trace_push(format!("final:{:x}:{:x}:{}:{}", o.rip, o.gpr[0], o.executed, o.finished));
        trace_push(format!("mem:{:?}", o.areas.iter().filter(|a| !(hide_fdt && a.0 == FDT)).map(|a| a.3).collect::<Vec<_>>()));
    }
    set_dispatch(None);
}

fn step_to(ax: &mut Axecutor, target: u64, ctx: &mut Ctx) -> bool {
    // run the argument-loading instructions up to (not including) the instruction at `target`
    for _ in 0..16 {
        let rip = ax.reg_read_64(SR::RIP).unwrap_or(0);
        if rip == target {
            return true;
        }
        match do_step(ax) {
            StepOut::Ok(true) => ctx.guest_steps += 1,
            _ => return false,
        }
    }
    false
}

fn pipes_equal(ax: &Axecutor, model: &[MPipe]) -> bool {
    let actual = ax.verif_pipes();
    let mut m: Vec<(u64, u64, Vec<u8>)> = model.iter().map(|p| (p.r, p.w, p.q.iter().copied().collect())).collect();
    m.sort();
    // a pipe() that failed half-way may leave an unreachable entry behind: only the model's pipes are compared
    m.iter().all(|p| actual.iter().any(|a| a == p))
}

fn run_pipe(sc: &Sc, ax: &mut Axecutor, marks: &[u64], seen: &Rc<RefCell<Vec<(u64, u64)>>>, ctx: &mut Ctx) {
    let mut pipes: Vec<MPipe> = Vec::new();
    let mut draws = sc.rng_values.clone().into_iter();
    let mut fallback = Rng::new(sc.rng_seed ^ 0x0F0F_F0F0_9876_5432);
    let mut reserved: Vec<u64> = Vec::new();
    let mut history_w: BTreeMap<(u64, u64), Vec<u8>> = BTreeMap::new();
    let mut history_r: BTreeMap<(u64, u64), Vec<u8>> = BTreeMap::new();
    let mut last_nr: u64 = 0;
    for (k, op) in sc.ops.iter().enumerate() {
        if !step_to(ax, marks[k], ctx) {
            ctx.harness_errors.push("argument loading failed".into());
            return;
        }
        if let Op::Retry { off } = op {
            // host repair between the two syscall instructions: no guest instruction executes
            let _ = ax.reg_write_64(SR::RAX, last_nr);
            let _ = ax.reg_write_64(SR::RSI, DATA + *off);
            ctx.fault("call_retried_after_host_repair");
        }
        let rax = ax.reg_read_64(SR::RAX).unwrap_or(0);
        last_nr = rax;
        let rdi = ax.reg_read_64(SR::RDI).unwrap_or(0);
        let rsi = ax.reg_read_64(SR::RSI).unwrap_or(0);
        let rdx = ax.reg_read_64(SR::RDX).unwrap_or(0);
        let before = area_snapshot(ax);
        let seen_before = seen.borrow().len();
        let out = do_step(ax);
        ctx.guest_steps += 1;
        ctx.nontrivial = true;
        let ok = matches!(out, StepOut::Ok(_));
        let after = area_snapshot(ax);
        let rax_after = ax.reg_read_64(SR::RAX).unwrap_or(0);
        trace_push(format!("sys{rax}:{}:{rax_after:x}", match &out { StepOut::Ok(_) => "ok".to_string(), StepOut::Err(e) => format!("err:{e}"), StepOut::Panic(p) => format!("panic:{}", p.class()) }));
        let user_saw: Vec<(u64, u64)> = seen.borrow()[seen_before..].to_vec();
        let oc = match &out {
            StepOut::Ok(_) => "ok".to_string(),
            StepOut::Err(_) => "err".to_string(),
            StepOut::Panic(p) => format!("panic:{}", p.class()),
        };
        if let StepOut::Panic(p) = &out {
            ctx.dev("C14", format!("C14|syscall{rax}|{oc}"), format!("syscall step panicked: {} at {}", p.msg, p.loc));
            // C19: whatever sequence of calls led here, a step never crashes the host
            ctx.dev("C19", format!("C19|crash_site|{}", p.class()), format!("a syscall step ({rax}) of a guest program using the built-in pipe handler panicked: {} at {}", p.msg, p.loc));
            return;
        }
        let saw_in_after_mode = sc.user_hook == "after" && !user_saw.is_empty();
        let changed_mem = |a: &[(u64, u64, u32, Vec<u8>)], b: &[(u64, u64, u32, Vec<u8>)]| a != b;
        match rax {
            22 => {
                // the two draws this call consumes
                let v1 = draws.next().unwrap_or_else(|| fallback.next());
                let v2 = draws.next().unwrap_or_else(|| fallback.next());
                let (r, w) = ((v1 as u16) as u64 + 1024, (v2 as u16) as u64 + 1024);
                let collide = pipes.iter().any(|p| p.r == r || p.w == r || p.r == w || p.w == w);
                // descriptors drawn by an earlier pipe() that failed on its buffer may or may not be taken
                let maybe_collide = reserved.iter().any(|x| *x == r || *x == w);
                let buf_ok = range_ok(&before, rdi, 16, 2);
                if collide {
                    ctx.fault("fd_collision");
                }
                if !buf_ok {
                    ctx.fault("bad_guest_buffer");
                }
                if r == w {
                    ctx.probe("read_end_equals_write_end");
                }
                ctx.event(&format!("pipe:{}:{}:{oc}", if collide { "collision" } else { "fresh" }, if buf_ok { "buf_ok" } else { "buf_bad" }), &format!("{r},{w}"));
                if saw_in_after_mode {
                    ctx.dev("C14", "C14|pipe|reached_user_hook".into(), "pipe() was passed on to a later user hook".into());
                }
                if ok {
                    if rax_after != 0 {
                        ctx.dev("C14", "C14|pipe|return_value".into(), format!("pipe() returned {rax_after:#x}"));
                    }
                    let fr = read_mem(&after, rdi, 8).map(|b| u64::from_le_bytes(b.try_into().unwrap()));
                    let fw = read_mem(&after, rdi + 8, 8).map(|b| u64::from_le_bytes(b.try_into().unwrap()));
                    match (fr, fw) {
                        (Some(fr), Some(fw)) => {
                            if pipes.iter().any(|p| p.r == fr || p.w == fr || p.r == fw || p.w == fw) {
                                ctx.dev("C14", "C14|pipe|descriptor_reused".into(), format!("pipe() handed out ({fr},{fw}) while one of them is a live pipe end"));
                            }
                            pipes.push(MPipe { r: fr, w: fw, q: VecDeque::new() });
                        }
                        _ => ctx.dev("C14", "C14|pipe|descriptors_not_stored".into(), "pipe() succeeded but the descriptor array is not readable".into()),
                    }
                    if !buf_ok {
                        ctx.dev("C14", "C14|pipe|bad_buffer_accepted".into(), "pipe() succeeded with an unwritable descriptor array".into());
                        if range_ok(&before, rdi, 16, 0) {
                            ctx.dev("C09", "C09|sys|pipe|unwritable_array|want=err|got=ok".into(), format!("pipe() stored its descriptors at {rdi:#x} although the area forbids writing"));
                        }
                    }
                } else {
                    if !collide && !buf_ok {
                        reserved.push(r);
                        reserved.push(w);
                    }
                    if !collide && buf_ok && !maybe_collide {
                        ctx.dev("C14", "C14|pipe|fresh|failed".into(), format!("pipe() failed although the descriptors ({r},{w}) are fresh and the array is writable: {out:?}"));
                    }
                    if changed_mem(&before, &after) && !buf_ok && range_ok(&before, rdi, 16, 0) {
                        ctx.dev("C09", "C09|sys|pipe|denied_access_changed_memory".into(), format!("a refused pipe() changed the unwritable area at {rdi:#x}"));
                    }
                    if changed_mem(&before, &after) {
                        ctx.dev("C14", "C14|pipe|failed_call_changed_memory".into(), "a failing pipe() changed guest memory".into());
                    }
                }
                if !pipes_equal(ax, &pipes) {
                    ctx.dev("C14", format!("C14|pipe|existing_pipes_changed|{}", if collide { "collision" } else { "fresh" }), "pipe() changed the contents or identity of existing pipes".into());
                }
            }
            0 => {
                let pi = pipes.iter().position(|p| p.r == rdi);
                match pi {
                    Some(i) => {
                        let avail = pipes[i].q.len() as u64;
                        let kx = rdx.min(avail);
                        let buf_ok = range_ok(&before, rsi, kx, 2);
                        if !buf_ok {
                            ctx.fault("bad_guest_buffer");
                        }
                        if avail == 0 {
                            ctx.probe("read_from_empty_pipe");
                        } else if kx < avail {
                            ctx.probe("partial_pipe_read");
                        }
                        let rel = if rdx == 0 {
                            "count0"
                        } else if rdx < avail {
                            "less"
                        } else if rdx == avail {
                            "exact"
                        } else {
                            "more"
                        };
                        ctx.event(&format!("read:pipe:{rel}:{}:{oc}", if buf_ok { "buf_ok" } else { "buf_bad" }), &format!("{rdi} {rdx} {avail}"));
                        if !user_saw.is_empty() && sc.user_hook == "after" {
                            ctx.dev("C14", "C14|read|read_end|reached_user_hook".into(), "a read on a pipe's read end was passed on to a later user hook".into());
                        }
                        if kx == 0 {
                            // nothing to transfer: success with 0 or a failure because of the buffer are both accepted
                            if ok && rax_after != 0 {
                                ctx.dev("C14", format!("C14|read|read_end|{rel}|return_value"), format!("read returned {rax_after} with count {rdx}, {avail} available"));
                            }
                            if changed_mem(&before, &after) {
                                ctx.dev("C14", format!("C14|read|read_end|{rel}|memory_changed"), "a zero-byte read changed guest memory".into());
                            }
                        } else if buf_ok {
                            if !ok {
                                ctx.dev("C14", format!("C14|read|read_end|{rel}|failed"), format!("read failed with a valid buffer: {out:?}"));
                            } else {
                                if rax_after != kx {
                                    ctx.dev("C14", format!("C14|read|read_end|{rel}|return_value"), format!("read returned {rax_after}, expected min({rdx}, {avail})"));
                                }
                                let want: Vec<u8> = pipes[i].q.iter().take(kx as usize).copied().collect();
                                let got = read_mem(&after, rsi, kx).unwrap_or_default();
                                if got != want {
                                    ctx.dev("C14", format!("C14|read|read_end|{rel}|wrong_bytes"), "the guest buffer does not hold the next bytes of the stream".into());
                                }
                                // only the addressed bytes changed
                                let mut exp = before.clone();
                                for a in exp.iter_mut() {
                                    if a.1 > 0 && a.0 <= rsi && (rsi as u128 + kx as u128) <= a.0 as u128 + a.1 as u128 {
                                        let o = (rsi - a.0) as usize;
                                        a.3[o..o + kx as usize].copy_from_slice(&want);
                                    }
                                }
                                if exp != after {
                                    ctx.dev("C14", format!("C14|read|read_end|{rel}|wrote_beyond_count"), "read changed guest memory outside [buf, buf+n)".into());
                                }
                                let took = (rax_after.min(avail)) as usize;
                                let bytes: Vec<u8> = pipes[i].q.drain(..took).collect();
                                history_r.entry((pipes[i].r, pipes[i].w)).or_default().extend(bytes);
                            }
                        } else {
                            if ok {
                                ctx.dev("C14", format!("C14|read|read_end|{rel}|bad_buffer_accepted"), "read succeeded with an unwritable buffer".into());
                            }
                            if changed_mem(&before, &after) {
                                ctx.dev("C14", "C14|read|failed_call_changed_memory".into(), "a failing read changed guest memory".into());
                            }
                            // C09: the handler stores into guest memory on the guest's behalf - one more access path
                            if range_ok(&before, rsi, kx, 0) {
                                ctx.fault("syscall_store_into_unwritable_area");
                                if ok {
                                    ctx.dev("C09", "C09|sys|pipe_read|unwritable_buffer|want=err|got=ok".into(), format!("read() into [{rsi:#x},+{kx}) succeeded although the area forbids writing"));
                                }
                                if changed_mem(&before, &after) {
                                    ctx.dev("C09", "C09|sys|pipe_read|denied_access_changed_memory".into(), format!("read() into the unwritable area at {rsi:#x} changed memory"));
                                }
                            }
                        }
                        if !pipes_equal(ax, &pipes) {
                            ctx.dev("C14", format!("C14|read|read_end|{rel}|queue_state|{}", if buf_ok { "buf_ok" } else { "buf_bad" }), "the handler's pipe contents differ from the queue model after this read".into());
                            // adopt
                            for p in pipes.iter_mut() {
                                if let Some(a) = ax.verif_pipes().iter().find(|a| a.0 == p.r && a.1 == p.w) {
                                    p.q = a.2.iter().copied().collect();
                                }
                            }
                        }
                    }
                    // (a descriptor drawn by a pipe() that then failed on its buffer: whether ax still knows it is
                    // not settled by the statement - no verdict, as for pipe() itself)
                    None if reserved.contains(&rdi) => ctx.probe("call_on_descriptor_of_a_failed_pipe"),
                    None => non_pipe(sc, ctx, "read", rdi, &pipes, &user_saw, ok, &before, &after, ax, rax_after),
                }
            }
            1 => {
                let pi = pipes.iter().position(|p| p.w == rdi);
                match pi {
                    Some(i) => {
                        let buf_ok = range_ok(&before, rsi, rdx, 1);
                        if !buf_ok {
                            ctx.fault("bad_guest_buffer");
                        }
                        ctx.event(&format!("write:pipe:{}:{}:{oc}", if rdx == 0 { "count0" } else { "n" }, if buf_ok { "buf_ok" } else { "buf_bad" }), &format!("{rdi} {rdx}"));
                        if !user_saw.is_empty() && sc.user_hook == "after" {
                            ctx.dev("C14", "C14|write|write_end|reached_user_hook".into(), "a write on a pipe's write end was passed on to a later user hook".into());
                        }
                        if rdx == 0 {
                            if ok && rax_after != 0 {
                                ctx.dev("C14", "C14|write|write_end|count0|return_value".into(), format!("write of 0 bytes returned {rax_after}"));
                            }
                        } else if buf_ok {
                            if !ok {
                                ctx.dev("C14", "C14|write|write_end|failed".into(), format!("write failed with a readable buffer: {out:?}"));
                            } else {
                                if rax_after != rdx {
                                    ctx.dev("C14", "C14|write|write_end|return_value".into(), format!("write returned {rax_after}, expected {rdx}"));
                                }
                                let bytes = read_mem(&before, rsi, rdx).unwrap_or_default();
                                history_w.entry((pipes[i].r, pipes[i].w)).or_default().extend(bytes.iter());
                                pipes[i].q.extend(bytes);
                            }
                        } else if ok {
                            ctx.dev("C14", "C14|write|write_end|bad_buffer_accepted".into(), "write succeeded with an unreadable buffer".into());
                            if range_ok(&before, rsi, rdx, 0) {
                                ctx.dev("C09", "C09|sys|pipe_write|unreadable_buffer|want=err|got=ok".into(), format!("write() from [{rsi:#x},+{rdx}) succeeded although the area forbids reading"));
                            }
                        }
                        if rdx > 0 && !buf_ok && range_ok(&before, rsi, rdx, 0) {
                            ctx.fault("syscall_load_from_unreadable_area");
                        }
                        if changed_mem(&before, &after) {
                            ctx.dev("C14", "C14|write|changed_guest_memory".into(), "write changed guest memory".into());
                        }
                        if !pipes_equal(ax, &pipes) {
                            ctx.dev("C14", format!("C14|write|write_end|queue_state|{}", if buf_ok { "buf_ok" } else { "buf_bad" }), "the handler's pipe contents differ from the queue model after this write".into());
                            for p in pipes.iter_mut() {
                                if let Some(a) = ax.verif_pipes().iter().find(|a| a.0 == p.r && a.1 == p.w) {
                                    p.q = a.2.iter().copied().collect();
                                }
                            }
                        }
                    }
                    // (a descriptor drawn by a pipe() that then failed on its buffer: whether ax still knows it is
                    // not settled by the statement - no verdict, as for pipe() itself)
                    None if reserved.contains(&rdi) => ctx.probe("call_on_descriptor_of_a_failed_pipe"),
                    None => non_pipe(sc, ctx, "write", rdi, &pipes, &user_saw, ok, &before, &after, ax, rax_after),
                }
            }
            _ => non_pipe(sc, ctx, "other", rdi, &pipes, &user_saw, ok, &before, &after, ax, rax_after),
        }
        let _ = op;
    }
    // conservation over the history: per pipe, what was read is a prefix of what was written
    for (k, rd) in history_r.iter() {
        let wr = history_w.get(k).cloned().unwrap_or_default();
        if rd.len() > wr.len() || wr[..rd.len()] != rd[..] {
            ctx.dev("C14", "C14|history|reads_not_prefix_of_writes".into(), format!("pipe {k:?}: the concatenated reads are not a prefix of the concatenated writes"));
        }
    }
}

#[allow(clippy::too_many_arguments)]
fn non_pipe(
    sc: &Sc,
    ctx: &mut Ctx,
    what: &str,
    fd: u64,
    pipes: &[MPipe],
    user_saw: &[(u64, u64)],
    ok: bool,
    before: &[(u64, u64, u32, Vec<u8>)],
    after: &[(u64, u64, u32, Vec<u8>)],
    ax: &Axecutor,
    rax_after: u64,
) {
    let cls = if what == "other" {
        "other_syscall"
    } else if pipes.iter().any(|p| p.r == fd || p.w == fd) {
        "wrong_end"
    } else if fd <= 2 {
        "std"
    } else {
        "never_issued"
    };
    ctx.event(&format!("{what}:non_pipe:{cls}:{}", if ok { "ok" } else { "err" }), &format!("{fd}"));
    if !ok {
        ctx.dev("C14", format!("C14|{what}|{cls}|step_failed"), "a syscall that is not a pipe operation made the step fail although a syscall hook is registered".into());
        return;
    }
    if sc.user_hook != "none" {
        if user_saw.len() != 1 {
            ctx.dev("C14", format!("C14|{what}|{cls}|not_left_for_user_hook"), format!("the user hook saw {} invocations for a call on descriptor {fd} that is not a pipe end", user_saw.len()));
        } else {
            ctx.probe("user_hook_saw_non_pipe_call");
        }
        if sc.user_hook == "after" && rax_after != 0x5EED {
            ctx.dev("C14", format!("C14|{what}|{cls}|user_hook_result_lost"), "the user hook's result was overwritten".into());
        }
    }
    if before != after {
        ctx.dev("C14", format!("C14|{what}|{cls}|changed_guest_memory"), "the built-in handler changed memory for a call that is not its own".into());
    }
    if !pipes_equal(ax, pipes) {
        ctx.dev("C14", format!("C14|{what}|{cls}|changed_pipes"), "a call on a descriptor that is not a pipe end changed a pipe".into());
    }
}

fn run_brk(sc: &Sc, ax: &mut Axecutor, marks: &[u64], _seen: &Rc<RefCell<Vec<(u64, u64)>>>, ctx: &mut Ctx) {
    let mut base: Option<u64> = None; // B
    let mut brk: u64 = 0; // K
    let mut max_k: u64 = 0;
    let mut shrunk = false;
    let mut unknown_break = false;
    // offset -> value, valid while the break has stayed above offset+8 since the write
    let mut shadow: BTreeMap<u64, u64> = BTreeMap::new();
    let mut host_blocks: Vec<(u64, u64, bool)> = Vec::new();
    let mut overlap_reported = false;
    for (k, op) in sc.ops.iter().enumerate() {
        // after every operation: no two areas intersect (real extents, not the handler's bookkeeping),
        // and the areas the host created behind the heap still hold the host's bytes
        if k > 0 && !overlap_reported {
            let snap = area_snapshot(ax);
            'o: for i in 0..snap.len() {
                for j in i + 1..snap.len() {
                    if intersects(snap[i].0, snap[i].1, snap[j].0, snap[j].1) {
                        ctx.dev("C13", "C13|areas_overlap".into(), format!("after operation {} ({:?}) areas [{:#x},+{:#x}) and [{:#x},+{:#x}) intersect", k - 1, sc.ops[k - 1], snap[i].0, snap[i].1, snap[j].0, snap[j].1));
                        overlap_reported = true;
                        break 'o;
                    }
                }
            }
            for (s, l, protected) in host_blocks.iter() {
                if !snap.iter().any(|a| a.0 == *s && a.1 == *l) {
                    ctx.dev("C13", "C13|neighbour_resized".into(), format!("after operation {} ({:?}) the area the host created at {s:#x} (+{l:#x}) no longer has its extent", k - 1, sc.ops[k - 1]));
                    overlap_reported = true;
                    continue;
                }
                if !*protected {
                    continue;
                }
                match catch(|| ax.mem_read_bytes(*s, *l)) {
                    Ok(Ok(b)) if b.iter().all(|x| *x == 0xb7) => {}
                    _ => {
                        ctx.dev("C13", "C13|neighbour_shadowed".into(), format!("after operation {} ({:?}) the area the host created at {s:#x} no longer reads back the host's bytes", k - 1, sc.ops[k - 1]));
                        overlap_reported = true;
                    }
                }
            }
        }
        if !step_to(ax, marks[k], ctx) {
            // argument loading can only fail if an earlier step left RIP elsewhere
            ctx.harness_errors.push("argument loading failed".into());
            return;
        }
        let rdi = ax.reg_read_64(SR::RDI).unwrap_or(0);
        let rbx = ax.reg_read_64(SR::RBX).unwrap_or(0);
        if let Op::Host { what } = op {
            let (hs, _) = ax.verif_brk();
            let r = match what.as_str() {
                "late_pipe" => catch(|| ax.handle_syscalls(vec![Syscall::Pipe]).map_err(|e| e.to_string())),
                "late_others" => catch(|| ax.handle_syscalls(vec![Syscall::ArchPrctl, Syscall::Exit]).map_err(|e| e.to_string())),
                // (areas are addressed by their start: only when the heap is the one area that starts there)
                "prot_rwx" if hs != 0 && area_snapshot(ax).iter().filter(|a| a.0 == hs).count() == 1 => catch(|| ax.mem_prot(hs, 7).map_err(|e| e.to_string())),
                "prot_rw" if hs != 0 && area_snapshot(ax).iter().filter(|a| a.0 == hs).count() == 1 => catch(|| ax.mem_prot(hs, 3).map_err(|e| e.to_string())),
                _ => Ok(Ok(())),
            };
            ctx.event(&format!("host:{what}:{}", matches!(r, Ok(Ok(())))), "");
            ctx.fault(if what.starts_with("late") { "handlers_installed_midrun" } else { "heap_rights_changed_by_host" });
        }
        if let Op::Block { gap, len, inside: true } = op {
            let (hs, hl) = ax.verif_brk();
            if hs != 0 && hl > 0 {
                let start = hs + gap % hl;
                let made = matches!(catch(|| ax.mem_init_zero(start, *len)), Ok(Ok(())));
                ctx.event(&format!("host_block_inside_heap:{}", if made { "created" } else { "refused" }), "");
                ctx.fault("area_requested_inside_heap");
                if made {
                    ctx.dev("C13", "C13|area_created_inside_heap".into(), format!("the host could create [{start:#x},+{len:#x}) inside the heap [{hs:#x},+{hl:#x})"));
                }
            }
        } else if let Op::Block { gap, len, .. } = op {
            let (hs, _) = ax.verif_brk();
            if let Some(h) = area_snapshot(ax).iter().find(|a| hs != 0 && a.0 == hs) {
                let start = h.0 + h.1 + gap;
                // read-only, so that the guest cannot legitimately change it whatever its stores beyond the
                // break hit - unless another area (the still empty heap itself, say) starts at the same
                // address: mem_prot addresses areas by their start, so such a block stays writable and only
                // its extent is watched
                let shared = area_snapshot(ax).iter().any(|a| a.0 == start);
                let made = matches!(catch(|| ax.mem_init_area(start, vec![0xb7; *len as usize])), Ok(Ok(())));
                let protected = made && !shared && matches!(catch(|| ax.mem_prot(start, 1)), Ok(Ok(())));
                ctx.event(&format!("host_block:{}", if !made { "refused" } else if shared { "created_at_shared_start" } else { "created" }), "");
                if made {
                    ctx.fault("area_created_behind_live_heap");
                    host_blocks.push((start, *len, protected));
                }
            }
        }
        let before = area_snapshot(ax);
        let (heap_start, heap_len) = ax.verif_brk();
        let out = do_step(ax);
        ctx.guest_steps += 1;
        ctx.nontrivial = true;
        let ok = matches!(out, StepOut::Ok(_));
        let oc = match &out {
            StepOut::Ok(_) => "ok".to_string(),
            StepOut::Err(_) => "err".to_string(),
            StepOut::Panic(p) => format!("panic:{}", p.class()),
        };
        if let StepOut::Panic(p) = &out {
            ctx.dev("C13", format!("C13|{}|{oc}", match op { Op::Brk0 => "query", Op::BrkRel { .. } => "move", Op::Store { .. } => "store", _ => "load" }), format!("step panicked: {} at {}", p.msg, p.loc));
            ctx.dev("C19", format!("C19|crash_site|{}", p.class()), format!("a step of a guest program using the built-in brk handler panicked: {} at {}", p.msg, p.loc));
            return;
        }
        let rax_after = ax.reg_read_64(SR::RAX).unwrap_or(0);
        trace_push(format!("brk_op:{}:{:x}:{:x}", match &out { StepOut::Ok(_) => "ok".to_string(), StepOut::Err(e) => format!("err:{e}"), StepOut::Panic(p) => format!("panic:{}", p.class()) }, if matches!(op, Op::Brk0 | Op::BrkRel { .. }) { rax_after } else { 0 }, if matches!(op, Op::Load { .. }) && matches!(out, StepOut::Ok(_)) { ax.reg_read_64(SR::RCX).unwrap_or(0) } else { 0 }));
        match op {
            Op::Brk0 => {
                ctx.event(&format!("brk0:{oc}"), "");
                if !ok {
                    ctx.dev("C13", "C13|query|failed".into(), format!("brk(0) failed: {out:?}"));
                    return;
                }
                match base {
                    None => {
                        base = Some(rax_after);
                        brk = rax_after;
                        max_k = brk;
                        let (hs, _) = ax.verif_brk();
                        if hs != 0x1000 {
                            ctx.probe("heap_not_at_first_probe");
                        }
                    }
                    Some(_) => {
                        if rax_after != brk && !unknown_break {
                            ctx.dev("C13", format!("C13|query|stale_break|{}", if brk > base.unwrap() { "after_move" } else { "initial" }), format!("brk(0) returned {rax_after:#x}, the current break is {brk:#x} (base {:#x})", base.unwrap()));
                        }
                    }
                }
            }
            Op::BrkRel { delta } => {
                let b = match base {
                    Some(b) => b,
                    None => continue,
                };
                let p = rdi;
                let (hs, _) = if heap_start != 0 { (heap_start, 0) } else { ax.verif_brk() };
                // every area except the heap itself (an area the host put at the start of a still empty heap is not the heap)
                let me = before.iter().position(|a| a.0 == hs && (heap_start == 0 || a.1 == heap_len));
                let fits = p >= hs && !before.iter().enumerate().any(|(i, a)| Some(i) != me && intersects(hs, p - hs, a.0, a.1));
                let beyond_cap = p >= hs && p - hs > HEAP_CAP;
                if p >= hs && p - hs >= HEAP_CAP - 0x1000 && p - hs <= HEAP_CAP {
                    ctx.probe("brk_request_at_heap_limit");
                }
                let kind = if p < b {
                    "below_base"
                } else if beyond_cap {
                    "beyond_limit"
                } else if p > brk {
                    if shrunk && p <= max_k {
                        "regrow"
                    } else {
                        "grow"
                    }
                } else if p < brk {
                    "shrink"
                } else {
                    "same"
                };
                if !fits {
                    ctx.fault("brk_blocked_by_neighbour");
                }
                ctx.event(&format!("brk:{kind}:{}:{oc}", if fits { "fits" } else { "blocked" }), &format!("{delta}"));
                if kind == "below_base" {
                    // not demanded by the statement: whatever the call answered, the guest-visible heap
                    // [base, break) is empty from here on (contents may be gone) until the next grow -
                    // which is demanded to work again
                    ctx.fault("brk_below_initial_break");
                    brk = b;
                    shadow.clear();
                    // where the break is now is not defined by the statement: queries are not judged until the next grow
                    unknown_break = true;
                } else if beyond_cap {
                    // more than the handler's resource limit: it may be refused (unchanged break) or granted
                    ctx.fault("brk_beyond_heap_limit");
                    if ok && rax_after == p {
                        brk = p;
                        unknown_break = false;
                        max_k = max_k.max(p);
                    } else if ok && rax_after != brk && !unknown_break {
                        ctx.dev("C13", format!("C13|{kind}|return_value"), format!("refused brk({p:#x}) returned {rax_after:#x}, neither the request nor the unchanged break {brk:#x}"));
                    }
                } else if fits {
                    if !ok {
                        ctx.dev("C13", format!("C13|{kind}|failed"), format!("brk({p:#x}) failed although [{hs:#x}, {p:#x}) collides with no other area: {out:?}"));
                    } else if rax_after != p {
                        ctx.dev("C13", format!("C13|{kind}|return_value"), format!("brk({p:#x}) returned {rax_after:#x}"));
                    } else {
                        match kind {
                            "grow" => ctx.probe("brk_grow_ok"),
                            "shrink" => {
                                ctx.probe("brk_shrink");
                                shrunk = true;
                            }
                            "regrow" => ctx.probe("brk_regrow"),
                            _ => {}
                        }
                        brk = p;
                        unknown_break = false;
                        max_k = max_k.max(p);
                        let lim = brk - b;
                        shadow.retain(|off, _| off + 8 <= lim);
                    }
                } else {
                    // blocked: may fail the step or report the unchanged break
                    if ok && rax_after == p {
                        ctx.dev("C13", format!("C13|{kind}|blocked|accepted"), format!("brk({p:#x}) succeeded although the new extent collides with another area"));
                        brk = p;
                    } else if ok && rax_after != brk && !unknown_break {
                        ctx.dev("C13", format!("C13|{kind}|blocked|return_value"), format!("blocked brk({p:#x}) returned {rax_after:#x}, neither the request nor the unchanged break {brk:#x}"));
                    }
                }
                // the heap never overlaps another area
                let after = area_snapshot(ax);
                let (hs2, hl2) = ax.verif_brk();
                if after.iter().any(|a| a.0 != hs2 && intersects(hs2, hl2, a.0, a.1)) {
                    ctx.dev("C13", format!("C13|{kind}|heap_overlaps_area"), format!("after brk({p:#x}) the heap [{hs2:#x}, +{hl2:#x}) intersects another area"));
                }
                // everything between base and break is readable, and keeps what was written
                if brk > b && brk - b <= (1 << 20) {
                    match catch(|| ax.mem_read_bytes(b, brk - b)) {
                        Ok(Ok(bytes)) => {
                            for (off, v) in shadow.iter() {
                                let o = *off as usize;
                                if o + 8 <= bytes.len() && u64::from_le_bytes(bytes[o..o + 8].try_into().unwrap()) != *v {
                                    ctx.dev("C13", format!("C13|{kind}|heap_contents_lost"), format!("after brk({p:#x}) the value stored at heap offset {off:#x} is gone"));
                                    break;
                                }
                            }
                        }
                        _ => ctx.dev("C13", format!("C13|{kind}|heap_not_readable"), format!("after brk({p:#x}) the range [base, break) = [{b:#x}, {brk:#x}) is not readable")),
                    }
                }
            }
            Op::BrkAbs { arg } => {
                // the very first call carries an argument: the heap comes into being in this call. Where it is
                // placed is the handler's choice (read back through the hook); a request at or above its
                // start that collides with nothing must be honoured like any other
                if base.is_none() {
                    let (hs, hl) = ax.verif_brk();
                    let me = before.iter().position(|a| a.0 == hs);
                    let fits = hs != 0 && *arg >= hs && !before.iter().enumerate().any(|(i, a)| Some(i) != me && intersects(hs, arg - hs, a.0, a.1));
                    ctx.event(&format!("first_call_with_argument:{}:{oc}", if fits { "fits" } else { "other" }), "");
                    ctx.fault("first_brk_call_with_argument");
                    if fits && *arg - hs <= (64 << 20) {
                        if !ok {
                            ctx.dev("C13", "C13|first_call|failed".into(), format!("the guest's first brk call, brk({arg:#x}), failed although [{hs:#x}, {arg:#x}) collides with no other area: {out:?}").chars().take(500).collect());
                        } else if rax_after != *arg || hl != arg - hs {
                            ctx.dev("C13", "C13|first_call|return_value".into(), format!("the guest's first brk call, brk({arg:#x}), returned {rax_after:#x} (heap [{hs:#x},+{hl:#x}))"));
                        }
                    }
                }
            }
            Op::Store { off, val } => {
                let b = match base {
                    Some(b) => b,
                    None => continue,
                };
                let inside = rbx == b && off + 8 <= brk - b;
                ctx.event(&format!("store:{}:{oc}", if inside { "inside" } else { "beyond" }), "");
                if inside {
                    if !ok {
                        ctx.dev("C13", "C13|store|inside_heap|failed".into(), format!("a guest store at heap offset {off:#x} below the break ({:#x}) failed: {out:?}", brk - b));
                    } else {
                        // overlapping earlier entries are superseded
                        let keys: Vec<u64> = shadow.keys().copied().filter(|o| *o + 8 > *off && *o < off + 8).collect();
                        for kx in keys {
                            shadow.remove(&kx);
                        }
                        shadow.insert(*off, *val);
                    }
                }
            }
            Op::Load { off } => {
                let b = match base {
                    Some(b) => b,
                    None => continue,
                };
                let inside = rbx == b && off + 8 <= brk - b;
                ctx.event(&format!("load:{}:{oc}", if inside { "inside" } else { "beyond" }), "");
                if inside {
                    if !ok {
                        ctx.dev("C13", "C13|load|inside_heap|failed".into(), format!("a guest load at heap offset {off:#x} below the break failed: {out:?}"));
                    } else if let Some(v) = shadow.get(off) {
                        let rcx = ax.reg_read_64(SR::RCX).unwrap_or(0);
                        if rcx != *v {
                            ctx.dev("C13", "C13|load|heap_contents_lost".into(), format!("the guest read {rcx:#x} at heap offset {off:#x}, it stored {v:#x} there and the break never went below it"));
                        }
                    }
                }
            }
            _ => {}
        }
    }
}

impl Engine for E3Engine {
    fn name(&self) -> &'static str {
        "E3 sys-sim"
    }
    fn runs(&self, prop: &str, thorough: bool) -> u64 {
        let base = match prop {
            "C13" => 60_000,
            "C20" => 12_000,
            "C09" => 8_000,
            "C19" => 30_000,
            _ => 80_000,
        };
        if thorough {
            base * 20
        } else {
            base
        }
    }
    fn gen(&self, prop: &str, thorough: bool, seed: u64, idx: u64) -> Value {
        let mut r = Rng::new(mix(seed, prop, idx));
        let sc = match prop {
            "C13" => gen_brk(&mut r, thorough, idx % 10 == 3),
            "C09" => gen_pipe_cfg(&mut r, thorough, true),
            // C19: multi-step histories against the built-in handlers, fault configurations (bad buffers, wrong ends,
            // colliding descriptors, blocked heaps) included; only crashes and hangs are judged there
            "C19" => match idx % 3 {
                0 => gen_brk(&mut r, thorough, idx % 9 == 0),
                1 => gen_pipe_cfg(&mut r, thorough, true),
                _ => gen_pipe(&mut r, thorough),
            },
            "C20" => {
                if idx % 2 == 0 {
                    gen_brk(&mut r, thorough, idx % 4 == 0)
                } else {
                    gen_pipe(&mut r, thorough)
                }
            }
            _ => gen_pipe(&mut r, thorough),
        };
        serde_json::to_value(sc).unwrap()
    }
    fn exec(&self, prop: &str, sc: &Value, ctx: &mut Ctx) {
        match serde_json::from_value::<Sc>(sc.clone()) {
            Ok(s) => {
                if prop == "C20" {
                    run_c20(&s, ctx)
                } else {
                    run(prop, &s, ctx)
                }
            }
            Err(e) => ctx.harness_errors.push(format!("bad E3 scenario: {e}")),
        }
    }
    fn shrink(&self, _prop: &str, sc: &Value) -> Vec<Value> {
        let s: Sc = match serde_json::from_value(sc.clone()) {
            Ok(s) => s,
            Err(_) => return vec![],
        };
        let mut out = Vec::new();
        let n = s.ops.len();
        let mut width = n / 2;
        while width >= 1 {
            let mut from = 0;
            while from < n {
                let mut c = s.clone();
                c.ops.drain(from..(from + width).min(n));
                out.push(serde_json::to_value(c).unwrap());
                from += width;
            }
            if width == 1 {
                break;
            }
            width /= 2;
        }
        for i in 0..s.blockers.len() {
            let mut c = s.clone();
            c.blockers.remove(i);
            out.push(serde_json::to_value(c).unwrap());
        }
        if s.user_hook != "none" {
            let mut c = s.clone();
            c.user_hook = "none".into();
            out.push(serde_json::to_value(c).unwrap());
        }
        out
    }
    fn crash_context(&self, _prop: &str, sc: &Value) -> String {
        format!("sys|{}", sc["kind"].as_str().unwrap_or("?"))
    }
    fn components(&self) -> (Vec<&'static str>, Vec<&'static str>) {
        (
            vec!["syscalls.rs built-in brk and pipe/read/write handlers", "hooks.rs native path", "memory.rs (anywhere allocation, resize, bounds, permissions)", "step() with MOV/LEA/XOR/SYSCALL", "guest program assembled with iced"],
            vec!["thread_rng in the pipe handler (descriptor draws served from the scenario through the RNG seam)", "fatal_error! family in wasm32 mode", "async executor (one poll)"],
        )
    }
    fn rule(&self, prop: &str) -> String {
        if prop == "C19" {
            "multi-step part: guest programs against the built-in brk and pipe handlers (the C13 / C14 / C09 generators, fault configurations included: bad buffers, wrong ends, colliding descriptors, blocked heaps, heaps at the size limit); every step must return - a panic, abort or placement loop that uses up its budget is the violation, nothing else is judged".into()
        } else if prop == "C09" {
            "system-call handlers as an access path: guest programs against the built-in pipe handler in which every third buffer (descriptor array of pipe(), destination of read(), source of write()) lies in a mapped area that forbids the access; the call must fail and change nothing".into()
        } else if prop == "C13" {
            "one run = a pre-existing layout of 0-6 areas around the addresses the heap placement probes, and a guest program of brk(0) / brk(base+delta) (grow, shrink, regrow, page-aligned or not, blocked by neighbours) interleaved with guest stores and loads at heap offsets; break model with shadow bytes; a run is non-trivial if it executed a syscall; distinct = distinct hash of the sequence of (operation kind, fits/blocked, outcome)".into()
        } else {
            "one run = a guest program creating up to 6 pipes and issuing writes/reads of 0-2000 bytes on read ends, write ends, wrong ends, 0/1/2 and never-issued descriptors, with descriptor draws served from the scenario (repeats of live descriptors and read end = write end in the fault configuration), guest buffers that are unmapped/read-only/write-only/straddling, and a user Syscall hook registered after (or before) the built-in handler; queue model per pipe, checked per call and over the history; distinct = distinct hash of the sequence of (call kind, descriptor class, count relation, buffer class, outcome)".into()
        }
    }
    fn assumptions(&self, prop: &str) -> Vec<String> {
        if prop == "C13" {
            vec!["not demanded: behaviour of brk(p) for 0 < p < base, contents of re-grown space, faults beyond the break".into(), "a growth request that collides with another area may fail the step or return the unchanged break".into()]
        } else {
            vec!["a transfer of zero bytes may succeed with 0 or fail because of its buffer (the statement is silent)".into(), "a pipe() whose two descriptors coincide is accepted as long as it behaves as a FIFO".into(), "the descriptor array is read as 2 x u64 (the layout ax writes)".into()]
        }
    }
    fn level(&self, _prop: &str) -> &'static str {
        "exploration"
    }
}
