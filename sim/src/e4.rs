//! E4 load-sim: "process start" - an ELF image (generated or bundled) goes through the storage
//! fault injector, then from_binary, then init_stack_program_start, then a guest observer pops
//! the entry frame. Serves C15 (fault-free configuration), C16 (storage faults), C17 (entry frame).

use std::cell::RefCell;
use std::rc::Rc;
use std::sync::OnceLock;

use ax_x86::axecutor::Axecutor;
use ax_x86::state::hooks::HookResult;
use ax_x86::state::registers::SupportedRegister as SR;
use serde::{Deserialize, Serialize};
use serde_json::Value;

use crate::common::*;
use crate::e1::intersects;
use crate::engine::Engine;
use crate::hooks::{set_dispatch, supported_by_name, tramp_ref};
use crate::rng::{mix, Rng};

#[path = "e4_elf.rs"]
pub mod elf;
use elf::*;

#[derive(Serialize, Deserialize, Clone, Debug, PartialEq)]
#[serde(tag = "base")]
pub enum Base {
    Bundled { name: String },
    Gen { spec: ImgSpec },
    Raw { hex: String },
    New,
}

#[derive(Serialize, Deserialize, Clone, Debug, PartialEq)]
pub struct Sc {
    pub kind: String, // c15 | c16 | c17
    pub base: Base,
    pub muts: Vec<Mutation>,
    pub argv: Vec<String>,
    pub envp: Vec<String>,
    pub stack_len: u64,
    pub blockers: Vec<(u64, u64)>,
    /// C17: the pre-existing areas were created 16 bytes long and grown to their length by mem_resize_section
    #[serde(default)]
    pub grown_blockers: bool,
    /// C17, machines from new(): the code sits at 0x100, below every address the placement loops probe, so
    /// that the pre-existing areas are the topmost ones
    #[serde(default)]
    pub code_low: bool,
    /// C17: what the host did to the machine before it initialised the process stack: "" nothing, "init_stack"
    /// a plain stack (init_stack), "program_start" an earlier process stack, "named_stack" an area of its own
    /// that happens to be called "Stack"
    #[serde(default)]
    pub prior: String,
}

pub struct E4Engine;
pub static E4: E4Engine = E4Engine;

// ------------------------------------------------------------------------------------------
// generators
// ------------------------------------------------------------------------------------------

fn observer_code(pops: usize) -> Vec<u8> {
    let mut c = Vec::with_capacity(pops * 3 + 8);
    for _ in 0..pops {
        c.push(0x58); // pop rax
        c.extend_from_slice(&[0x0f, 0x05]); // syscall
    }
    c.extend_from_slice(&[0x90; 8]);
    c
}

pub fn gen_img(r: &mut Rng, entry_code: &[u8], max_segs: u64) -> ImgSpec {
    let nseg = r.range(1, max_segs) as usize;
    let mut segs: Vec<SegSpec> = Vec::new();
    let mut cursor: u64 = *r.pick(&[0x40_0000u64, 0x1_0000, 0x8000_0000, 0x7f00_0000_0000]) + r.below(16) * 0x1000;
    for _ in 0..nseg {
        let unaligned = r.chance(1, 3);
        let vaddr = cursor + if unaligned { r.range(1, 0xfff) } else { 0 };
        let filesz = match r.below(9) {
            0 => 0,
            1 => 1,
            2 => 0x1000,
            3 => 0xfff,
            4 => 0x1001,
            5 => 0x2000,
            6 => r.range(1, 0x3000),
            _ => r.range(16, 0x400),
        };
        let memsz = match r.below(6) {
            0 | 1 | 2 => filesz.max(1),
            3 => filesz + r.range(1, 0x2000),
            4 => (filesz + 0xfff) & !0xfff | 0x1000 * (filesz == 0) as u64,
            _ => filesz + 1,
        };
        let memsz = memsz.max(1);
        let flags = r.below(8) as u32;
        segs.push(SegSpec { vaddr, filesz, memsz, flags, seed: r.next(), data: None });
        let span_end = (vaddr + memsz + 0xfff) & !0xfff;
        cursor = span_end + *r.pick(&[0u64, 0, 1, 4]) * 0x1000;
    }
    // entry: an executable segment that can hold the entry code
    let need = entry_code.len().max(4) as u64;
    let mut entry_seg = segs.iter().position(|s| s.flags & 1 != 0 && s.filesz >= need);
    if entry_seg.is_none() {
        let i = r.usize(segs.len());
        segs[i].flags |= 1 | 4;
        if segs[i].filesz < need {
            let grow = need + r.below(64);
            // keep page span: only grow inside the already reserved span if possible, else re-layout by shifting later segments
            let old_end = (segs[i].vaddr + segs[i].memsz + 0xfff) & !0xfff;
            segs[i].filesz = grow;
            segs[i].memsz = segs[i].memsz.max(grow);
            let new_end = (segs[i].vaddr + segs[i].memsz + 0xfff) & !0xfff;
            if new_end > old_end {
                let shift = new_end - old_end;
                for s in segs.iter_mut().skip(i + 1) {
                    s.vaddr += shift;
                }
            }
        }
        entry_seg = Some(i);
    }
    let entry_seg = entry_seg.unwrap();
    let entry_off = if entry_code.is_empty() { r.below(segs[entry_seg].filesz.max(1)) } else { r.below(segs[entry_seg].filesz - need + 1) };
    let mut extras: Vec<ExtraPh> = Vec::new();
    let ne = r.below(4);
    for _ in 0..ne {
        match r.below(7) {
            0 if r.chance(1, 2) => {
                // PT_GNU_RELRO over the whole of a segment (as lld lays it out) or over its first part (GNU ld)
                let i = r.usize(segs.len());
                let len = if r.chance(1, 2) { segs[i].memsz } else { r.range(1, segs[i].memsz) };
                extras.push(ExtraPh { p_type: 0x6474_e552, flags: 4, inside: Some(i), off: 0, len });
            }
            0 => extras.push(ExtraPh { p_type: 0x6474_e551, flags: 6, inside: None, off: 0, len: 0 }),
            1 => extras.push(ExtraPh { p_type: 0, flags: 0, inside: None, off: 0, len: 0 }),
            k => {
                let i = r.usize(segs.len());
                if segs[i].filesz >= 8 {
                    let len = r.range(1, segs[i].filesz.min(64));
                    let off = r.below(segs[i].filesz - len + 1);
                    let p_type = match k {
                        2 | 3 => 4,           // PT_NOTE
                        4 => 6,               // PT_PHDR
                        5 => 0x6474_e553,     // PT_GNU_PROPERTY
                        _ => 0x6474_e550,     // PT_GNU_EH_FRAME
                    };
                    extras.push(ExtraPh { p_type, flags: 4, inside: Some(i), off, len });
                }
            }
        }
    }
    // PT_TLS: the loader expects the thread-local image at the start of an area an *earlier* PT_LOAD
    // created, and sets FS behind it; at most one, on a page-aligned segment of any flags
    let mut tls_of: Option<(usize, usize)> = None; // (extra index, segment index)
    if r.chance(1, 5) {
        let cands: Vec<usize> = (0..segs.len()).filter(|i| segs[*i].vaddr & 0xfff == 0 && segs[*i].memsz >= 1).collect();
        if !cands.is_empty() {
            let i = *r.pick(&cands);
            let len = r.range(1, segs[i].memsz);
            extras.push(ExtraPh { p_type: 7, flags: 4, inside: Some(i), off: 0, len });
            tls_of = Some((extras.len() - 1, i));
        }
    }
    let mut ph_order: Vec<usize> = (0..segs.len() + extras.len()).collect();
    r.shuffle(&mut ph_order);
    if let Some((e, i)) = tls_of {
        let pe = ph_order.iter().position(|x| *x == segs.len() + e).unwrap();
        let pi = ph_order.iter().position(|x| *x == i).unwrap();
        if pe < pi {
            ph_order.swap(pe, pi);
        }
    }
    let mut file_order: Vec<usize> = (0..segs.len()).collect();
    r.shuffle(&mut file_order);
    let sections = r.chance(2, 3);
    let mut syms: Vec<SymSpec> = Vec::new();
    if sections {
        let ns = r.below(10);
        for k in 0..ns {
            let seg = r.usize(segs.len());
            let off = r.below(segs[seg].memsz);
            let (seg, off) = if k > 0 && r.chance(1, 5) { (syms[0].seg, syms[0].off) } else { (seg, off) };
            // every symbol type a linker emits (NOTYPE, OBJECT, FUNC, SECTION, FILE, TLS-less), local / global / weak
            let info = if r.chance(1, 2) { None } else { Some(((*r.pick(&[0u8, 1, 2])) << 4) | *r.pick(&[0u8, 1, 2, 3, 4])) };
            syms.push(SymSpec { name: if r.chance(1, 6) { None } else { Some(format!("sym_{k}_{}", r.below(1000))) }, seg, off, defined: !r.chance(1, 6), info });
        }
    }
    ImgSpec { segs, ph_order, file_order, extras, entry_seg, entry_off, syms, sections, entry_code: to_hex(entry_code) }
}

fn gen_c15(r: &mut Rng, idx: u64) -> Sc {
    if idx < BUNDLED.len() as u64 {
        return Sc { kind: "c15".into(), base: Base::Bundled { name: BUNDLED[idx as usize].0.to_string() }, muts: vec![], argv: vec![], envp: vec![], stack_len: 0, blockers: vec![], grown_blockers: false, code_low: false, prior: String::new() };
    }
    Sc { kind: "c15".into(), base: Base::Gen { spec: gen_img(r, &[], 8) }, muts: vec![], argv: vec![], envp: vec![], stack_len: 0, blockers: vec![], grown_blockers: false, code_low: false, prior: String::new() }
}

/// C10, ELF part (also sampled by C16): a generated image in which one PT_LOAD header's address is
/// moved relative to another segment - into it, onto its start, just behind its file bytes, into its
/// last page - so that two segments' page-rounded extents intersect
fn gen_relational(r: &mut Rng, kind: &str) -> Sc {
    let spec = loop {
        let s = gen_img(r, &[], 6);
        if s.segs.len() >= 2 {
            break s;
        }
    };
    let i = r.usize(spec.segs.len());
    let j = loop {
        let j = r.usize(spec.segs.len());
        if j != i {
            break j;
        }
    };
    let a = &spec.segs[i];
    let delta: u64 = match r.below(8) {
        0 => 0,
        1 => 0x10,
        2 => 0x800,
        3 => a.memsz.saturating_sub(1),
        4 => a.memsz,
        5 => a.memsz / 2,
        6 => ((a.vaddr + a.memsz + 0xfff) & !0xfff).wrapping_sub(a.vaddr).wrapping_sub(r.range(1, 0xfff)),
        _ => 0u64.wrapping_sub(r.range(1, spec.segs[j].memsz.max(2))),
    };
    let value = a.vaddr.wrapping_add(delta);
    let pos = spec.ph_order.iter().position(|x| *x == j).unwrap_or(0) as u64;
    let mut muts = vec![Mutation::Field { table: "p".into(), idx: pos, field: "p_vaddr".into(), value }];
    if r.chance(1, 4) {
        // and a size that reaches over the next segment
        let pos_i = spec.ph_order.iter().position(|x| *x == i).unwrap_or(0) as u64;
        muts.push(Mutation::Field { table: "p".into(), idx: pos_i, field: "p_memsz".into(), value: a.memsz + r.range(1, 0x4000) });
    }
    Sc { kind: kind.into(), base: Base::Gen { spec }, muts, argv: vec![], envp: vec![], stack_len: 0, blockers: vec![], grown_blockers: false, code_low: false, prior: String::new() }
}

fn strings(r: &mut Rng, n: u64, long_ok: bool) -> Vec<String> {
    let v = strings_distinct(r, n, long_ok);
    // now and then the same text again (`prog -v -v`, two identical environment entries)
    let mut out: Vec<String> = Vec::new();
    for s in v {
        if !out.is_empty() && r.chance(1, 6) {
            let again = r.pick(&out).clone();
            out.push(again);
        } else {
            out.push(s);
        }
    }
    out
}

fn strings_distinct(r: &mut Rng, n: u64, long_ok: bool) -> Vec<String> {
    (0..n)
        .map(|_| match r.below(10) {
            0 => String::new(),
            1 => "x".to_string(),
            2 if long_ok => "L".repeat(*r.pick(&[1000usize, 4096, 65536])),
            3 => "ключ=значение€".to_string(),
            _ => {
                let l = r.range(1, 24) as usize;
                (0..l).map(|_| (b'a' + r.below(26) as u8) as char).collect()
            }
        })
        .collect()
}

fn gen_c17(r: &mut Rng, thorough: bool) -> Sc {
    let max_n: u64 = if thorough { *r.pick(&[4u64, 16, 64, 512, 4096]) } else { *r.pick(&[2u64, 4, 16, 64]) };
    let argc = match r.below(6) {
        0 => 0,
        1 => 1,
        _ => r.range(0, max_n),
    };
    let envc = match r.below(6) {
        0 => 0,
        1 => 1,
        _ => r.range(0, max_n),
    };
    let long_ok = argc + envc <= 16;
    let argv = strings(r, argc, long_ok);
    let envp = strings(r, envc, long_ok);
    let stack_len = match r.below(10) {
        0 => 0,
        1 => 16,
        2 => 64,
        3 => 0x100,
        4 => 0x1000,
        5 => 0x10_0000,
        6 => r.range(0, 0x400),
        7 => 8 * (argc + envc + 3), // exactly the frame
        _ => r.range(0x100, 0x4000),
    };
    let mut blockers: Vec<(u64, u64)> = Vec::new();
    let nb = r.below(5);
    for _ in 0..nb {
        let start = match r.below(3) {
            0 => 0x1000u64 << r.below(6),
            1 => 0x1000 + r.below(32) * 0x100,
            _ => 0x1000 + r.below(8) * 0x1000,
        };
        // (an empty area occupies nothing: whatever lands on its address is still placed there)
        let len = *r.pick(&[0u64, 1, 0x10, 0x100, 0x1000, 0x3000]);
        if !blockers.iter().any(|b| intersects(start, len, b.0, b.1) || b.0 == start) {
            blockers.push((start, len));
        }
    }
    let pops = (3 + argc + envc) as usize;
    let code = observer_code(pops);
    let base = if code.len() <= 0x2000 && r.chance(1, 2) { Base::Gen { spec: gen_img(r, &code, 4) } } else { Base::New };
    Sc { kind: "c17".into(), base, muts: vec![], argv, envp, stack_len, blockers, grown_blockers: r.chance(1, 3), code_low: r.chance(1, 3), prior: if r.chance(1, 4) { r.pick(&["init_stack", "init_stack_small", "program_start", "named_stack"]).to_string() } else { String::new() } }
}

/// the enumerated storage faults on the bundled images: every header truncation offset, a stride
/// through the rest, and every header / program header / section header / symbol field set to
/// every boundary value. Independent of VERIF_SEED.
fn enumerated() -> &'static Vec<(usize, Vec<Mutation>)> {
    static T: OnceLock<Vec<(usize, Vec<Mutation>)>> = OnceLock::new();
    T.get_or_init(|| {
        let mut v: Vec<(usize, Vec<Mutation>)> = Vec::new();
        for (bi, (_, bytes)) in BUNDLED.iter().enumerate() {
            let len = bytes.len() as u64;
            let h = locate(bytes);
            let hdr_end = (h.phoff + 56 * h.phnum).min(len);
            for t in 0..=hdr_end {
                v.push((bi, vec![Mutation::Truncate { len: t }]));
            }
            let stride = ((len - hdr_end) / 160).max(1);
            let mut t = hdr_end + 1;
            while t < len {
                v.push((bi, vec![Mutation::Truncate { len: t }]));
                t += stride;
            }
            v.push((bi, vec![Mutation::Truncate { len: len - 1 }]));
            let mut fields: Vec<(String, u64, String)> = Vec::new();
            for f in E_FIELDS.iter() {
                fields.push(("e".into(), 0, f.0.into()));
            }
            for i in 0..h.phnum {
                for f in P_FIELDS.iter() {
                    fields.push(("p".into(), i, f.0.into()));
                }
            }
            for j in 0..h.shnum.min(40) {
                for f in ["sh_offset", "sh_size", "sh_link", "sh_type", "sh_entsize"] {
                    fields.push(("s".into(), j, f.into()));
                }
            }
            for k in 0..h.symnum.min(6) {
                for f in Y_FIELDS.iter() {
                    fields.push(("y".into(), k, f.0.into()));
                }
            }
            for (table, idx, field) in fields {
                if let Some((off, size)) = field_loc(bytes, &table, idx, &field) {
                    let mut cur = 0u64;
                    for k in 0..size {
                        if ((off + k) as usize) < bytes.len() {
                            cur |= (bytes[(off + k) as usize] as u64) << (8 * k);
                        }
                    }
                    for val in boundary_values(cur, len, &field) {
                        v.push((bi, vec![Mutation::Field { table: table.clone(), idx, field: field.clone(), value: val }]));
                    }
                }
            }
            // second order on the program headers of the small images: every defined segment type
            // combined with extreme sizes / offsets / addresses (each type has its own code path in the loader)
            if bytes.len() < 20_000 {
                for i in 0..h.phnum {
                    for ty in [0u64, 1, 2, 3, 4, 5, 6, 7, 0x6474_e550, 0x6474_e551, 0x6474_e552, 0x6474_e553] {
                        for field in ["p_memsz", "p_filesz", "p_offset", "p_vaddr"] {
                            for val in [0u64, (1 << 28) + 1, 1 << 32, 1 << 63, u64::MAX] {
                                v.push((
                                    bi,
                                    vec![
                                        Mutation::Field { table: "p".into(), idx: i, field: "p_type".into(), value: ty },
                                        Mutation::Field { table: "p".into(), idx: i, field: field.into(), value: val },
                                    ],
                                ));
                                if field == "p_memsz" {
                                    // ... and the segment moved away from every loaded area
                                    v.push((
                                        bi,
                                        vec![
                                            Mutation::Field { table: "p".into(), idx: i, field: "p_type".into(), value: ty },
                                            Mutation::Field { table: "p".into(), idx: i, field: field.into(), value: val },
                                            Mutation::Field { table: "p".into(), idx: i, field: "p_vaddr".into(), value: 0x7000_0000 },
                                        ],
                                    ));
                                }
                            }
                        }
                    }
                }
            }
        }
        v
    })
}

fn random_mutation(r: &mut Rng, bytes: &[u8]) -> Mutation {
    let len = bytes.len() as u64;
    let h = locate(bytes);
    match r.below(10) {
        0 => Mutation::Truncate { len: r.below(len.max(1)) },
        1 | 2 | 3 | 4 => {
            let (table, idx, fields): (&str, u64, Vec<&str>) = match r.below(8) {
                0 | 1 => ("e", 0, E_FIELDS.iter().map(|f| f.0).collect()),
                2 | 3 | 4 | 5 => ("p", r.below(h.phnum.max(1)), P_FIELDS.iter().map(|f| f.0).collect()),
                6 => ("s", r.below(h.shnum.max(1)), S_FIELDS.iter().map(|f| f.0).collect()),
                _ => ("y", r.below(h.symnum.max(1)), Y_FIELDS.iter().map(|f| f.0).collect()),
            };
            let field = r.pick(&fields).to_string();
            let value = if r.chance(1, 2) {
                {
                    let cur = r.below(len.max(1));
                    let bv = boundary_values(cur, len, &field);
                    *r.pick(&bv)
                }
            } else {
                match r.below(4) {
                    0 => r.below(len.max(1)),
                    1 => r.next(),
                    2 => r.next() >> r.range(1, 63),
                    _ => len.wrapping_add(r.below(0x2000)).wrapping_sub(0x1000),
                }
            };
            Mutation::Field { table: table.into(), idx, field, value }
        }
        5 | 6 => {
            // bit flips concentrate on the headers
            let off = if r.chance(2, 3) { r.below((h.phoff + 56 * h.phnum).min(len).max(1)) } else { r.below(len.max(1)) };
            Mutation::BitFlip { offset: off, bit: r.below(8) as u32 }
        }
        7 => Mutation::Burst { offset: r.below(len.max(1)), len: r.range(1, 32), seed: r.next() },
        8 => Mutation::Splice { other: r.pick(&BUNDLED).0.to_string(), at: r.below(len.max(1)) },
        _ => Mutation::Truncate { len: (h.phoff + 56 * h.phnum).min(len).saturating_sub(r.below(64)) },
    }
}

fn gen_c16(r: &mut Rng, idx: u64) -> Sc {
    let en = enumerated();
    let mk = |base: Base, muts: Vec<Mutation>| Sc { kind: "c16".into(), base, muts, argv: vec![], envp: vec![], stack_len: 0, blockers: vec![], grown_blockers: false, code_low: false, prior: String::new() };
    if (idx as usize) < en.len() {
        let (bi, m) = &en[idx as usize];
        return mk(Base::Bundled { name: BUNDLED[*bi].0.to_string() }, m.clone());
    }
    match r.below(10) {
        0 => {
            // random byte strings, with and without an ELF magic
            let n = r.range(0, 400) as usize;
            let mut b = r.bytes(n);
            if r.chance(2, 3) && b.len() >= 20 {
                b[..4].copy_from_slice(&[0x7f, b'E', b'L', b'F']);
                b[4] = 2;
                b[5] = 1;
                b[6] = 1;
            }
            mk(Base::Raw { hex: to_hex(&b) }, vec![])
        }
        1 | 2 | 3 | 4 => {
            // small bundled images (the two large ones are covered by the enumerated part)
            let small: Vec<&(&str, &[u8])> = BUNDLED.iter().filter(|b| b.1.len() < 20_000).collect();
            let b = r.pick(&small);
            let n = 1 + r.below(3);
            let muts = (0..n).map(|_| random_mutation(r, b.1)).collect();
            mk(Base::Bundled { name: b.0.to_string() }, muts)
        }
        _ => {
            let spec = gen_img(r, &[], 8);
            let bytes = build(&spec).bytes;
            let n = 1 + r.below(3);
            let muts = (0..n).map(|_| random_mutation(r, &bytes)).collect();
            mk(Base::Gen { spec }, muts)
        }
    }
}

// ------------------------------------------------------------------------------------------
// execution
// ------------------------------------------------------------------------------------------

fn image_bytes(sc: &Sc) -> (Vec<u8>, Option<(ImgSpec, Built)>) {
    match &sc.base {
        Base::Bundled { name } => (bundled(name).map(|b| b.to_vec()).unwrap_or_default(), None),
        Base::Gen { spec } => {
            let b = build(spec);
            (b.bytes.clone(), Some((spec.clone(), b)))
        }
        Base::Raw { hex } => (from_hex(hex), None),
        Base::New => (vec![], None),
    }
}

fn mut_desc(sc: &Sc, base_len: u64) -> String {
    if sc.muts.is_empty() {
        return match sc.base {
            Base::Raw { .. } => "raw_bytes".into(),
            _ => "none".into(),
        };
    }
    let d = |m: &Mutation| match m {
        Mutation::Truncate { .. } => "truncate".to_string(),
        Mutation::Field { field, value, .. } => format!("field|{field}|{}", value_class(*value, base_len)),
        Mutation::BitFlip { .. } => "bitflip".to_string(),
        Mutation::Burst { .. } => "burst".to_string(),
        Mutation::Splice { .. } => "splice".to_string(),
    };
    if sc.muts.len() == 1 {
        d(&sc.muts[0])
    } else {
        let mut parts: Vec<String> = sc.muts.iter().map(d).collect();
        parts.sort();
        parts.dedup();
        format!("multi|{}", parts.join("+"))
    }
}

fn prot_of(flags: u32) -> u32 {
    (if flags & 4 != 0 { 1 } else { 0 }) | (if flags & 2 != 0 { 2 } else { 0 }) | (if flags & 1 != 0 { 4 } else { 0 })
}

fn run_c15(sc: &Sc, ctx: &mut Ctx) {
    let (bytes, gen) = image_bytes(sc);
    install_ax_rng(7);
    let r = catch(|| Axecutor::from_binary(&bytes));
    ctx.nontrivial = true;
    let ax = match r {
        Ok(Ok(a)) => a,
        Ok(Err(e)) => {
            let shape = match &gen {
                Some((spec, _)) => {
                    if spec.segs.iter().any(|s| s.vaddr & 0xfff != 0) {
                        "unaligned_vaddr"
                    } else {
                        "aligned"
                    }
                }
                None => "bundled",
            };
            ctx.event(&format!("load:err:{shape}"), "");
            ctx.dev("C15", format!("C15|load_failed|{shape}"), format!("a well-formed image was rejected: {}", e.to_string().lines().next().unwrap_or("")));
            return;
        }
        Err(p) => {
            ctx.dev("C15", format!("C15|load_panicked|{}", p.class()), format!("{} at {}", p.msg, p.loc));
            return;
        }
    };
    ctx.event("load:ok", "");
    // segments to check: from the spec, or parsed from the bundled file by the harness's own reader
    let mut segs: Vec<(u64, u64, u64, u32, Vec<u8>)> = Vec::new(); // vaddr filesz memsz flags filebytes
    let entry;
    match &gen {
        Some((spec, built)) => {
            for (i, s) in spec.segs.iter().enumerate() {
                let o = built.seg_off[i] as usize;
                segs.push((s.vaddr, s.filesz, s.memsz, s.flags, built.bytes[o..o + s.filesz as usize].to_vec()));
            }
            entry = built.entry;
        }
        None => {
            let h = locate(&bytes);
            for i in 0..h.phnum {
                let o = (h.phoff + 56 * i) as usize;
                let rd = |off: usize, n: usize| -> u64 {
                    let mut v = 0u64;
                    for k in 0..n {
                        v |= (bytes[o + off + k] as u64) << (8 * k);
                    }
                    v
                };
                if rd(0, 4) == 1 && rd(16, 8) != 0 {
                    let (off, vaddr, filesz, memsz) = (rd(8, 8), rd(16, 8), rd(32, 8), rd(40, 8));
                    segs.push((vaddr, filesz, memsz, rd(4, 4) as u32, bytes[off as usize..(off + filesz) as usize].to_vec()));
                }
            }
            let mut e = 0u64;
            for k in 0..8 {
                e |= (bytes[24 + k] as u64) << (8 * k);
            }
            entry = e;
        }
    }
    let areas = ax.verif_areas();
    for (vaddr, filesz, memsz, flags, fb) in segs.iter() {
        let shape = format!("{}{}", if vaddr & 0xfff != 0 { "unaligned" } else { "aligned" }, if memsz > filesz { "_bss" } else { "" });
        ctx.event(&format!("segment:{shape}"), "");
        let a = areas.iter().find(|a| a.start <= *vaddr && (*vaddr as u128 + *memsz as u128) <= a.start as u128 + a.length as u128);
        match a {
            None => ctx.dev("C15", format!("C15|segment_not_mapped|{shape}"), format!("segment at {vaddr:#x} (+{memsz:#x}) is not inside one area")),
            Some(a) => {
                let o = (vaddr - a.start) as usize;
                if a.data[o..o + *filesz as usize] != fb[..] {
                    ctx.dev("C15", format!("C15|bytes|{shape}"), format!("file bytes of the segment at {vaddr:#x} do not appear in memory"));
                }
                if a.data[o + *filesz as usize..o + *memsz as usize].iter().any(|b| *b != 0) {
                    ctx.dev("C15", format!("C15|zero_tail|{shape}"), format!("memory between file size and memory size of the segment at {vaddr:#x} is not zero"));
                }
                if a.access != prot_of(*flags) {
                    ctx.dev("C15", format!("C15|perm|flags={flags}"), format!("segment at {vaddr:#x} has flags {flags} but the area's permissions are {}", a.access));
                }
            }
        }
    }
    let rip = ax.reg_read_64(SR::RIP).unwrap_or(0);
    if rip != entry {
        ctx.dev("C15", "C15|entry".into(), format!("RIP {rip:#x}, e_entry {entry:#x}"));
    }
    if let Some((spec, _)) = &gen {
        for s in spec.syms.iter().filter(|s| s.defined) {
            let addr = spec.segs[s.seg].vaddr + s.off;
            let names: Vec<String> = spec.syms.iter().filter(|t| t.defined && spec.segs[t.seg].vaddr + t.off == addr).map(|t| t.name.clone().unwrap_or_default()).collect();
            match ax.resolve_symbol(addr) {
                Some(n) if names.contains(&n) => {}
                other => {
                    let cls = if s.name.is_none() { "unnamed" } else if names.len() > 1 { "duplicate_address" } else { "named" };
                    ctx.dev("C15", format!("C15|symbol|{cls}"), format!("address {addr:#x} carries {names:?} but resolves to {other:?}"));
                }
            }
            ctx.event("symbol", "");
        }
    }
    ctx.log_u64(observe(&ax).digest());
}

fn run_c16(sc: &Sc, ctx: &mut Ctx) {
    let (mut bytes, _) = image_bytes(sc);
    let base_len = bytes.len() as u64;
    let mut applied = 0;
    for m in sc.muts.iter() {
        if apply(&mut bytes, m) {
            applied += 1;
            match m {
                Mutation::Truncate { .. } => ctx.fault("elf_truncate"),
                Mutation::Field { .. } => ctx.fault("elf_field"),
                Mutation::BitFlip { .. } => ctx.fault("elf_bitflip"),
                Mutation::Burst { .. } => ctx.fault("elf_burst"),
                Mutation::Splice { .. } => ctx.fault("elf_splice"),
            }
        }
    }
    if matches!(sc.base, Base::Raw { .. }) {
        ctx.fault("arbitrary_bytes");
        applied += 1;
    }
    let desc = mut_desc(sc, base_len);
    install_ax_rng(7);
    crate::ALLOC_MAX_SEEN.store(0, std::sync::atomic::Ordering::Relaxed);
    let r = catch(|| {
        Axecutor::from_binary(&bytes).map(|a| {
            // C10: whatever was loaded, no two areas of the machine intersect
            let ext = a.verif_area_extents();
            let mut clash: Option<((u64, u64), (u64, u64))> = None;
            'o: for i in 0..ext.len() {
                for j in i + 1..ext.len() {
                    if intersects(ext[i].0, ext[i].1, ext[j].0, ext[j].1) {
                        clash = Some(((ext[i].0, ext[i].1), (ext[j].0, ext[j].1)));
                        break 'o;
                    }
                }
            }
            (a.verif_area_count(), clash)
        })
    });
    if let Ok(Ok((_, Some((x, y))))) = &r {
        ctx.dev("C10", "C10|elf_load|areas_overlap".into(), format!("from_binary succeeded and left the areas [{:#x},+{:#x}) and [{:#x},+{:#x}) intersecting", x.0, x.1, y.0, y.1));
    }
    let r = r.map(|x| x.map(|y| y.0));
    ctx.nontrivial = applied > 0;
    let oc = match &r {
        Ok(Ok(_)) => "ok".to_string(),
        Ok(Err(_)) => "err".to_string(),
        Err(p) => format!("panic:{}", p.class()),
    };
    ctx.event(&format!("load:{desc}:{oc}"), "");
    if let Err(p) = &r {
        // a refused allocation inside a fallible path shows up as a capacity-overflow style panic
        ctx.dev("C16", format!("C16|{desc}|{oc}"), format!("from_binary panicked: {} at {}", p.msg, p.loc));
    }
    ctx.log_u64(match &r {
        Ok(Ok(n)) => *n as u64,
        Ok(Err(_)) => 1 << 40,
        Err(_) => 1 << 41,
    });
}

fn run_c17(sc: &Sc, ctx: &mut Ctx) {
    for p in ["frame_larger_than_stack", "string_area_retry", "odd_entry_count", "from_image"] {
        ctx.probes.entry(p.to_string()).or_insert(0);
    }
    let n_entries = (sc.argv.len() + sc.envp.len() + 3) as u64;
    let code = observer_code(n_entries as usize);
    install_ax_rng(11);
    let made = match &sc.base {
        Base::New if sc.code_low && code.len() <= 0xe00 => catch(|| Axecutor::new(&code, 0x100, 0x100)),
        Base::New => catch(|| Axecutor::new(&code, 0x40_0000, 0x40_0000)),
        _ => {
            let (bytes, _) = image_bytes(sc);
            ctx.probe("from_image");
            catch(|| Axecutor::from_binary(&bytes))
        }
    };
    let mut ax = match made {
        Ok(Ok(a)) => a,
        other => {
            // image rejected: C15's business (e.g. the page-spill defect); nothing to observe here
            ctx.event("construct:failed", "");
            let _ = other;
            return;
        }
    };
    for (s, l) in sc.blockers.iter() {
        if sc.grown_blockers && *l > 16 {
            // (only what was just created is grown: a refused request may share its start with the program image)
            if matches!(catch(|| ax.mem_init_zero(*s, 16)), Ok(Ok(()))) {
                let _ = catch(|| ax.mem_resize_section(*s, *l));
            }
        } else {
            let _ = catch(|| ax.mem_init_zero(*s, *l));
        }
    }
    match sc.prior.as_str() {
        "init_stack" => {
            // (kept small: the strings are placed by a linear search in steps of their own length, which
            // legitimately takes a probe per few bytes of everything mapped in front of them)
            let _ = catch(|| ax.init_stack((sc.stack_len.clamp(0x80, 0x1000)) * 2));
            ctx.probe("prior_stack");
        }
        "init_stack_small" => {
            let _ = catch(|| ax.init_stack(64));
            ctx.probe("prior_stack");
        }
        "program_start" => {
            let _ = catch(|| ax.init_stack_program_start(0x200, vec!["old".to_string(), "-x".to_string()], vec!["OLD=1".to_string()]));
            ctx.probe("prior_stack");
        }
        "named_stack" => {
            let _ = catch(|| ax.mem_init_zero_named(0x7100_0000, 0x400, "Stack".to_string()));
            ctx.probe("prior_stack");
        }
        _ => {}
    }
    let pre: Vec<(u64, u64)> = ax.verif_area_extents().iter().map(|a| (a.0, a.1)).collect();
    let shape = format!(
        "{}|{}",
        if 8 * n_entries > sc.stack_len { "frame_larger_than_stack" } else { "frame_fits" },
        if n_entries % 2 == 1 { "odd" } else { "even" }
    );
    if 8 * n_entries > sc.stack_len {
        ctx.probe("frame_larger_than_stack");
    }
    if n_entries % 2 == 1 {
        ctx.probe("odd_entry_count");
    }
    ax_x86::verif::set_fuel(Some(crate::sup::DEFAULT_FUEL));
    let r = catch(|| ax.init_stack_program_start(sc.stack_len, sc.argv.clone(), sc.envp.clone()));
    let fuel_out = ax_x86::verif::fuel_was_exhausted();
    ctx.nontrivial = true;
    let cls = |n: usize| match n {
        0 => "0",
        1 => "1",
        2..=8 => "few",
        9..=64 => "many",
        _ => "huge",
    };
    ctx.event(
        &format!(
            "frame:argc={}:envc={}:stack={}:base={}:blockers={}:longstr={}",
            cls(sc.argv.len()),
            cls(sc.envp.len()),
            match sc.stack_len {
                0 => "0",
                1..=255 => "tiny",
                256..=65535 => "normal",
                _ => "large",
            },
            if matches!(sc.base, Base::New) { "new" } else { "image" },
            sc.blockers.len(),
            sc.argv.iter().chain(sc.envp.iter()).any(|s| s.len() > 500)
        ),
        "",
    );
    match &r {
        Ok(Ok(_)) => ctx.event(&format!("init:ok:{shape}"), ""),
        Ok(Err(e)) => {
            ctx.event(&format!("init:err:{shape}"), "");
            ctx.dev("C17", format!("C17|failed|{}|{shape}", if fuel_out { "fuel_exhausted" } else { "error" }), format!("init_stack_program_start({}, {} args, {} env) failed: {}", sc.stack_len, sc.argv.len(), sc.envp.len(), e.to_string().lines().next().unwrap_or("")));
            return;
        }
        Err(p) => {
            ctx.dev("C17", format!("C17|failed|panic:{}|{shape}", p.class()), format!("{} at {}", p.msg, p.loc));
            return;
        }
    }
    let stack_start = match &r {
        Ok(Ok(s)) => *s,
        _ => 0,
    };
    let rsp = ax.reg_read_64(SR::RSP).unwrap_or(0);
    if rsp % 16 != 0 {
        ctx.dev("C17", format!("C17|align|{shape}"), format!("RSP {rsp:#x} is not 16-byte aligned"));
    }
    // areas: everything new is writable, nothing overlaps
    let areas = ax.verif_areas();
    for i in 0..areas.len() {
        for j in i + 1..areas.len() {
            if intersects(areas[i].start, areas[i].length, areas[j].start, areas[j].length) {
                ctx.dev("C17", format!("C17|overlap|{shape}"), format!("areas {:#x}+{:#x} and {:#x}+{:#x} intersect after stack initialisation", areas[i].start, areas[i].length, areas[j].start, areas[j].length));
            }
        }
    }
    for a in areas.iter() {
        if !pre.iter().any(|p| p.0 == a.start && p.1 == a.length) && a.access & 2 == 0 {
            ctx.dev("C17", "C17|not_writable".into(), format!("new area {:?} at {:#x} is not writable", a.name, a.start));
        }
    }
    if areas.iter().any(|a| a.name.as_deref().map(|n| n.starts_with("arg") || n.starts_with("env")).unwrap_or(false) && a.start != 0x1000) {
        ctx.probe("string_area_retry");
    }
    // the stack space left below RSP is the requested size up to alignment padding (read as 64 bytes)
    // (the stack is the area at the returned start that did not exist before; an empty pre-existing
    // area may share that address)
    match areas.iter().find(|a| a.start == stack_start && !pre.iter().any(|p| p.0 == a.start && p.1 == a.length)).or_else(|| areas.iter().find(|a| a.start == stack_start)) {
        Some(st) => {
            if rsp < st.start || rsp >= st.start + st.length.max(1) {
                ctx.dev("C17", format!("C17|rsp_outside_stack|{shape}"), format!("RSP {rsp:#x} is outside the stack area {:#x}+{:#x}", st.start, st.length));
            } else {
                let below = rsp - st.start;
                if below + 64 < sc.stack_len || below > sc.stack_len + 64 {
                    ctx.dev("C17", format!("C17|space|{shape}"), format!("{below:#x} bytes lie below RSP, {:#x} were requested ({n_entries} frame entries)", sc.stack_len));
                }
            }
        }
        None => ctx.dev("C17", "C17|stack_area_missing".into(), "the returned stack start is not an area".into()),
    }
    // the frame as the guest observes it: pop, then report through a syscall hook
    let popped: Rc<RefCell<Vec<u64>>> = Rc::new(RefCell::new(Vec::new()));
    {
        let popped = popped.clone();
        set_dispatch(Some(Box::new(move |_id, ax, _m| {
            popped.borrow_mut().push(ax.reg_read_64(SR::RAX).unwrap_or(0));
            Ok(HookResult::Handled)
        })));
    }
    let sm = supported_by_name("Syscall").unwrap().1;
    if !matches!(catch(|| ax.hook_before_mnemonic_native(sm, tramp_ref(0))), Ok(Ok(()))) {
        ctx.harness_errors.push("cannot register the observer hook".into());
        set_dispatch(None);
        return;
    }
    if let Base::New = sc.base {
    } else {
        // image base: the observer code sits at the entry point already
    }
    for k in 0..(2 * n_entries) {
        match do_step(&mut ax) {
            StepOut::Ok(_) => ctx.guest_steps += 1,
            other => {
                let idx = k / 2;
                let part = if idx == 0 {
                    "argc".to_string()
                } else if idx <= sc.argv.len() as u64 {
                    "argv".into()
                } else if idx == sc.argv.len() as u64 + 1 {
                    "argv_terminator".into()
                } else if idx <= (sc.argv.len() + sc.envp.len()) as u64 + 1 {
                    "envp".into()
                } else {
                    "envp_terminator".into()
                };
                ctx.dev("C17", format!("C17|pop_failed|{part}|{shape}"), format!("popping frame entry {idx} failed: {other:?}"));
                set_dispatch(None);
                return;
            }
        }
    }
    set_dispatch(None);
    let got = popped.borrow().clone();
    let mut want_kinds: Vec<&str> = vec!["argc"];
    want_kinds.extend(std::iter::repeat("argv").take(sc.argv.len()));
    want_kinds.push("argv_terminator");
    want_kinds.extend(std::iter::repeat("envp").take(sc.envp.len()));
    want_kinds.push("envp_terminator");
    if got.len() != want_kinds.len() {
        ctx.harness_errors.push(format!("observer saw {} values, expected {}", got.len(), want_kinds.len()));
        return;
    }
    let mut si = 0usize;
    let all: Vec<&String> = sc.argv.iter().chain(sc.envp.iter()).collect();
    // every entry has its own copy: the strings' byte ranges (terminator included) are pairwise disjoint
    {
        let mut ranges: Vec<(u64, u64)> = Vec::new();
        let mut k = 0usize;
        for (v, kind) in got.iter().zip(want_kinds.iter()) {
            if *kind == "argv" || *kind == "envp" {
                ranges.push((*v, all[k].len() as u64 + 1));
                k += 1;
            }
        }
        ranges.sort();
        for w in ranges.windows(2) {
            if intersects(w[0].0, w[0].1, w[1].0, w[1].1) {
                ctx.dev("C17", format!("C17|strings_share_memory|{shape}"), format!("the strings at {:#x} (+{}) and {:#x} (+{}) are not disjoint copies", w[0].0, w[0].1, w[1].0, w[1].1));
                break;
            }
        }
    }
    for (v, kind) in got.iter().zip(want_kinds.iter()) {
        match *kind {
            "argc" => {
                if *v != sc.argv.len() as u64 {
                    ctx.dev("C17", format!("C17|argc|{shape}"), format!("popped {v} as argc, expected {}", sc.argv.len()));
                }
            }
            "argv_terminator" | "envp_terminator" => {
                if *v != 0 {
                    ctx.dev("C17", format!("C17|{kind}|{shape}"), format!("popped {v:#x} where a null terminator belongs"));
                }
            }
            _ => {
                let s = all[si];
                si += 1;
                let want: Vec<u8> = s.as_bytes().iter().copied().chain(std::iter::once(0)).collect();
                match catch(|| ax.mem_read_bytes(*v, want.len() as u64)) {
                    Ok(Ok(b)) if b == want => {}
                    _ => ctx.dev("C17", format!("C17|{kind}_string|{shape}"), format!("pointer {v:#x} does not address a NUL-terminated copy of {:?}", if s.len() > 40 { &s[..40] } else { s })),
                }
            }
        }
    }
    ctx.log_u64(observe(&ax).digest());
}

/// (vaddr, memsz, flags) of the loadable segments: from the spec, or read from a bundled file by the
/// harness's own reader
fn load_segments(bytes: &[u8], gen: &Option<(ImgSpec, Built)>) -> Vec<(u64, u64, u32)> {
    match gen {
        Some((spec, _)) => spec.segs.iter().map(|s| (s.vaddr, s.memsz, s.flags)).collect(),
        None => {
            let h = locate(bytes);
            let mut v = Vec::new();
            for i in 0..h.phnum {
                let o = (h.phoff + 56 * i) as usize;
                let rd = |off: usize, n: usize| -> u64 {
                    let mut x = 0u64;
                    for k in 0..n {
                        x |= (bytes[o + off + k] as u64) << (8 * k);
                    }
                    x
                };
                if rd(0, 4) == 1 && rd(16, 8) != 0 {
                    v.push((rd(16, 8), rd(40, 8), rd(4, 4) as u32));
                }
            }
            v
        }
    }
}

/// C09, the clause about loaded images: what a segment's flags deny stays denied on every access
/// path - API read/write, guest load/store/read-modify-write (from a helper code area the host adds)
/// and instruction fetch - and a denied access changes nothing. Only the *denial* direction is
/// judged here; that permitted accesses succeed is the business of the E1/E5 parts.
fn run_c09_elf(sc: &Sc, ctx: &mut Ctx) {
    let (bytes, gen) = image_bytes(sc);
    install_ax_rng(7);
    ctx.nontrivial = true;
    let mut ax = match catch(|| Axecutor::from_binary(&bytes)) {
        Ok(Ok(a)) => a,
        _ => {
            // whether a well-formed image loads is C15's claim
            ctx.probe("c09_elf_image_not_loaded");
            return;
        }
    };
    let segs = load_segments(&bytes, &gen);
    // helper code: mov [rbx],al ; mov al,[rbx] ; add byte [rbx],1 - each followed by NOPs
    const HELPER: u64 = 0x5a5a_0000_0000;
    let mut code = vec![0x90u8; 32];
    code[0..2].copy_from_slice(&[0x88, 0x03]);
    code[8..10].copy_from_slice(&[0x8a, 0x03]);
    code[16..19].copy_from_slice(&[0x80, 0x03, 0x01]);
    let ok = matches!(catch(|| ax.mem_init_area(HELPER, code.clone())), Ok(Ok(()))) && matches!(catch(|| ax.mem_prot(HELPER, 5)), Ok(Ok(())));
    if !ok {
        ctx.probe("c09_elf_no_room_for_helper");
        return;
    }
    let mut r = Rng::new(bytes.len() as u64 ^ 0x9e37);
    for (vaddr, memsz, flags) in segs.iter() {
        let p = prot_of(*flags);
        ctx.event(&format!("segment:prot={p}:{}", if memsz & 0xfff == 0 && vaddr & 0xfff == 0 { "whole_pages" } else { "partial_page" }), "");
        let mut offs = vec![0u64, memsz - 1, memsz / 2];
        offs.push(r.below(*memsz));
        offs.dedup();
        for off in offs {
            let addr = vaddr + off;
            let snapshot = |ax: &Axecutor| -> u64 { observe(ax).digest() };
            let mem_of = |ax: &Axecutor| -> Vec<(u64, Vec<u8>)> { ax.verif_areas().into_iter().map(|a| (a.start, a.data)).collect() };
            let _ = snapshot;
            let mut deny = |ctx: &mut Ctx, ax: &mut Axecutor, what: &str, need: u32, f: &mut dyn FnMut(&mut Axecutor) -> bool| {
                if p & need == need {
                    return;
                }
                ctx.fault(&format!("denied_{what}"));
                let before = mem_of(ax);
                let res = catch(|| f(ax));
                match res {
                    Ok(false) => {}
                    Ok(true) => ctx.dev("C09", format!("C09|elf|{what}|prot={p}|want=err|got=ok"), format!("{what} at {addr:#x} succeeded in a segment loaded with flags {flags} (permissions {p})")),
                    Err(pn) => ctx.dev("C09", format!("C09|elf|{what}|prot={p}|{}", pn.class()), format!("{what} at {addr:#x} panicked: {} at {}", pn.msg, pn.loc)),
                }
                if mem_of(ax) != before {
                    ctx.dev("C09", format!("C09|elf|{what}|prot={p}|denied_access_changed_memory"), format!("{what} at {addr:#x} was denied (or should have been) and memory changed"));
                }
            };
            deny(ctx, &mut ax, "api_read", 1, &mut |ax| ax.mem_read_8(addr).is_ok());
            deny(ctx, &mut ax, "api_write", 2, &mut |ax| ax.mem_write_8(addr, 0xc3).is_ok());
            let mut guest = |ax: &mut Axecutor, at: u64| -> bool {
                let _ = ax.reg_write_64(SR::RIP, at);
                let _ = ax.reg_write_64(SR::RBX, addr);
                let _ = ax.reg_write_64(SR::RAX, 0x5a);
                matches!(do_step(ax), StepOut::Ok(_))
            };
            deny(ctx, &mut ax, "guest_store", 2, &mut |ax| guest(ax, HELPER));
            deny(ctx, &mut ax, "guest_load", 1, &mut |ax| guest(ax, HELPER + 8));
            deny(ctx, &mut ax, "guest_rmw", 3, &mut |ax| guest(ax, HELPER + 16));
            deny(ctx, &mut ax, "fetch", 4, &mut |ax| {
                let _ = ax.reg_write_64(SR::RIP, addr);
                matches!(do_step(ax), StepOut::Ok(_))
            });
            ctx.guest_steps += 4;
        }
    }
    ctx.log_u64(observe(&ax).digest());
}

/// C20, process start: the same image, argv and envp on two machines whose constructors (and whatever
/// else asks the RNG seam) drew different random values; everything the guest can address afterwards -
/// area extents, rights and bytes, RSP, FS and GS - must be the same
fn run_c20_start(sc: &Sc, ctx: &mut Ctx) {
    let (bytes, _) = image_bytes(sc);
    ctx.nontrivial = true;
    let mut snaps: Vec<Option<(Vec<(u64, u64, u32, Vec<u8>)>, u64, u64, u64, String)>> = Vec::new();
    for seed in [0x1111_2222u64, 0x9999_aaaa_bbbb] {
        install_ax_rng(seed);
        ax_x86::verif::set_fuel(Some(crate::sup::DEFAULT_FUEL));
        let r = catch(|| -> Result<_, String> {
            let mut ax = Axecutor::from_binary(&bytes).map_err(|e| e.to_string().lines().next().unwrap_or("").to_string())?;
            let res = ax.init_stack_program_start(sc.stack_len, sc.argv.clone(), sc.envp.clone()).map(|_| ()).map_err(|e| e.to_string().lines().next().unwrap_or("").to_string());
            let mut areas: Vec<(u64, u64, u32, Vec<u8>)> = ax.verif_areas().into_iter().map(|a| (a.start, a.length, a.access, a.data)).collect();
            areas.sort();
            Ok((areas, ax.reg_read_64(SR::RSP).unwrap_or(0), ax.read_fs(), ax.read_gs(), format!("{res:?}")))
        });
        match r {
            Ok(Ok(s)) => snaps.push(Some(s)),
            Ok(Err(_)) => snaps.push(None),
            Err(p) => {
                ctx.event("start:panic", "");
                ctx.probe("c20_start_panicked");
                let _ = p;
                snaps.push(None);
            }
        }
    }
    ctx.event(&format!("start:{}", if snaps[0].is_some() { "loaded" } else { "rejected" }), "");
    match (&snaps[0], &snaps[1]) {
        (Some(a), Some(b)) => {
            if a.4 != b.4 {
                ctx.dev("C20", "C20|start|result".into(), format!("init_stack_program_start: {} vs {}", a.4, b.4));
            } else if a.1 != b.1 || a.2 != b.2 || a.3 != b.3 {
                ctx.dev("C20", "C20|start|registers".into(), format!("RSP/FS/GS differ: {:#x}/{:#x}/{:#x} vs {:#x}/{:#x}/{:#x}", a.1, a.2, a.3, b.1, b.2, b.3));
            } else if a.0.iter().map(|x| (x.0, x.1, x.2)).ne(b.0.iter().map(|x| (x.0, x.1, x.2))) {
                ctx.dev("C20", "C20|start|layout".into(), "the two machines have different areas after process start".into());
            } else if let Some((x, _)) = a.0.iter().zip(b.0.iter()).find(|(x, y)| x.3 != y.3) {
                ctx.dev("C20", "C20|start|memory".into(), format!("the bytes of the area at {:#x} (+{:#x}) differ between the two machines after process start", x.0, x.1));
            }
        }
        (None, None) => {}
        _ => ctx.dev("C20", "C20|start|loaded_vs_rejected".into(), "one machine loaded the image, the other did not".into()),
    }
}

pub fn run(_prop: &str, sc: &Sc, ctx: &mut Ctx) {
    match sc.kind.as_str() {
        "c20start" => run_c20_start(sc, ctx),
        "c09elf" => run_c09_elf(sc, ctx),
        "c15" => run_c15(sc, ctx),
        "c16" => run_c16(sc, ctx),
        _ => run_c17(sc, ctx),
    }
}

impl Engine for E4Engine {
    fn name(&self) -> &'static str {
        "E4 load-sim"
    }
    fn runs(&self, prop: &str, thorough: bool) -> u64 {
        match prop {
            "C15" => {
                if thorough {
                    2_000_000
                } else {
                    100_000
                }
            }
            "C09" => {
                if thorough {
                    300_000
                } else {
                    15_000
                }
            }
            "C10" => {
                if thorough {
                    400_000
                } else {
                    20_000
                }
            }
            "C20" => {
                if thorough {
                    60_000
                } else {
                    3_000
                }
            }
            "C16" => enumerated().len() as u64 + if thorough { 6_000_000 } else { 400_000 },
            _ => {
                if thorough {
                    300_000
                } else {
                    30_000
                }
            }
        }
    }
    fn gen(&self, prop: &str, thorough: bool, seed: u64, idx: u64) -> Value {
        let mut r = Rng::new(mix(seed, prop, idx));
        let sc = match prop {
            "C15" => gen_c15(&mut r, idx),
            "C09" => {
                let mut sc = gen_c15(&mut r, idx);
                sc.kind = "c09elf".into();
                sc
            }
            "C10" => gen_relational(&mut r, "c16"),
            "C20" => {
                let mut sc = gen_c17(&mut r, thorough);
                sc.kind = "c20start".into();
                sc.blockers.clear();
                sc.base = if idx % 2 == 0 { Base::Bundled { name: BUNDLED[(idx / 2) as usize % BUNDLED.len()].0.to_string() } } else { Base::Gen { spec: gen_img(&mut r, &[], 4) } };
                sc
            }
            "C16" if idx >= enumerated().len() as u64 && idx % 16 == 5 => gen_relational(&mut r, "c16"),
            "C16" => gen_c16(&mut r, idx),
            _ => gen_c17(&mut r, thorough),
        };
        serde_json::to_value(sc).unwrap()
    }
    fn exec(&self, prop: &str, sc: &Value, ctx: &mut Ctx) {
        match serde_json::from_value::<Sc>(sc.clone()) {
            Ok(s) => run(prop, &s, ctx),
            Err(e) => ctx.harness_errors.push(format!("bad E4 scenario: {e}")),
        }
    }
    fn shrink(&self, _prop: &str, sc: &Value) -> Vec<Value> {
        let s: Sc = match serde_json::from_value(sc.clone()) {
            Ok(s) => s,
            Err(_) => return vec![],
        };
        let mut out: Vec<Sc> = Vec::new();
        for i in 0..s.muts.len() {
            let mut c = s.clone();
            c.muts.remove(i);
            out.push(c);
        }
        for i in 0..s.blockers.len() {
            let mut c = s.clone();
            c.blockers.remove(i);
            out.push(c);
        }
        if s.kind == "c17" {
            if !matches!(s.base, Base::New) {
                let mut c = s.clone();
                c.base = Base::New;
                out.push(c);
            }
            for (which, list) in [(0, &s.argv), (1, &s.envp)] {
                let n = list.len();
                let mut width = n / 2;
                while width >= 1 {
                    let mut from = 0;
                    while from < n {
                        let mut c = s.clone();
                        let l = if which == 0 { &mut c.argv } else { &mut c.envp };
                        l.drain(from..(from + width).min(n));
                        out.push(c);
                        from += width;
                    }
                    if width == 1 {
                        break;
                    }
                    width /= 2;
                }
                for i in 0..n {
                    if list[i].len() > 1 {
                        let mut c = s.clone();
                        let l = if which == 0 { &mut c.argv } else { &mut c.envp };
                        l[i] = "a".into();
                        out.push(c);
                    }
                }
            }
            for l in [0u64, 16, 0x100, 0x1000] {
                if l < s.stack_len {
                    let mut c = s.clone();
                    c.stack_len = l;
                    out.push(c);
                }
            }
        }
        if let Base::Gen { spec } = &s.base {
            // drop segments (keeping the entry segment), extras, symbols
            for i in 0..spec.segs.len() {
                if i != spec.entry_seg && spec.segs.len() > 1 {
                    let mut sp = spec.clone();
                    sp.segs.remove(i);
                    let fix = |x: usize| if x > i { x - 1 } else { x };
                    let nseg_old = spec.segs.len();
                    sp.ph_order = sp.ph_order.iter().filter(|x| **x != i).map(|x| if *x >= nseg_old { *x - 1 } else { fix(*x) }).collect();
                    sp.file_order = sp.file_order.iter().filter(|x| **x != i).map(|x| fix(*x)).collect();
                    sp.entry_seg = fix(sp.entry_seg);
                    sp.extras.retain(|e| e.inside != Some(i));
                    if sp.extras.len() != spec.extras.len() {
                        continue;
                    }
                    for e in sp.extras.iter_mut() {
                        e.inside = e.inside.map(fix);
                    }
                    sp.syms.retain(|y| y.seg != i);
                    for y in sp.syms.iter_mut() {
                        y.seg = fix(y.seg);
                    }
                    let mut c = s.clone();
                    c.base = Base::Gen { spec: sp };
                    out.push(c);
                }
            }
            if !spec.extras.is_empty() {
                let mut sp = spec.clone();
                let n = spec.segs.len();
                sp.extras.clear();
                sp.ph_order.retain(|x| *x < n);
                let mut c = s.clone();
                c.base = Base::Gen { spec: sp };
                out.push(c);
            }
            if !spec.syms.is_empty() {
                let mut sp = spec.clone();
                sp.syms.clear();
                let mut c = s.clone();
                c.base = Base::Gen { spec: sp };
                out.push(c);
            }
        }
        out.into_iter().map(|x| serde_json::to_value(x).unwrap()).collect()
    }
    fn crash_context(&self, _prop: &str, sc: &Value) -> String {
        match serde_json::from_value::<Sc>(sc.clone()) {
            Ok(s) => {
                let base_len = match &s.base {
                    Base::Bundled { name } => bundled(name).map(|b| b.len()).unwrap_or(0) as u64,
                    Base::Gen { spec } => build(spec).bytes.len() as u64,
                    Base::Raw { hex } => (hex.len() / 2) as u64,
                    Base::New => 0,
                };
                format!("{}|{}", s.kind, mut_desc(&s, base_len))
            }
            Err(_) => "?".into(),
        }
    }
    fn components(&self) -> (Vec<&'static str>, Vec<&'static str>) {
        (
            vec!["elf crate 0.7 parser as used by ax", "elf.rs loader (from_binary)", "memory.rs (area creation, anywhere allocation, init_stack_program_start)", "step() with POP/SYSCALL for the guest observer", "hooks.rs native path"],
            vec!["global allocator wrapped with a per-request cap (256 MiB)", "fatal_error! family in wasm32 mode", "thread_rng (seeded RNG seam)", "retry loops bounded by the fuel seam"],
        )
    }
    fn rule(&self, prop: &str) -> String {
        match prop {
            "C15" => "fault-free configuration of the storage-fault simulation: generated ELF64 ET_EXEC images (1-8 PT_LOAD segments on distinct pages, aligned and unaligned vaddr, bss tails, exact page multiples, every flag combination, benign non-load headers, optional symbol table with named/unnamed/duplicate/undefined symbols, shuffled header and file order) plus the 8 bundled binaries; image model checked through the area view; distinct = distinct hash of (outcome, segment shape sequence)".into(),
            "C20" => "process start on two machines: the bundled binaries (one with PT_TLS) and generated images loaded with the same argv/envp/stack size while the RNG seam serves different streams; areas (extents, rights, bytes), RSP, FS and GS compared".into(),
            "C10" => "ELF load as a creation path: generated images in which one PT_LOAD header's address is moved relative to another segment (into it, onto its start, behind its file bytes, into its last page; sometimes with a size reaching over the next segment); whenever from_binary succeeds no two areas of the machine may intersect".into(),
            "C09" => "loaded images: for every PT_LOAD segment of generated and bundled well-formed images (every flag combination, exact page multiples, bss tails) each access path the flags deny - API read/write, guest load/store/read-modify-write from a host-added helper area, instruction fetch - at the first, last, middle and a sampled byte must fail and leave all memory unchanged".into(),
            "C16" => format!("{} enumerated storage faults on the 8 bundled images (every truncation offset of the headers plus a stride through the rest; every ELF-header, program-header, section-header and symbol field set to each of ~17 boundary values and every defined p_type) in every run independent of the seed, then sampled single/double/triple mutations (fields, bit flips, bursts, splices, truncations) of bundled and generated images and random byte strings; oracle: from_binary returns Ok or Err - no panic, abort, signal, hang, or allocation request above 256 MiB; distinct = distinct hash of (fault kind, field, value class, outcome)", enumerated().len()),
            _ => "argv/envp lists (empty to 64 entries quick / 4096 thorough, empty/1-byte/64 KiB/non-ASCII strings), stack sizes 0 to 1 MiB including sizes smaller than the frame, machines from new() and from generated images, adversarial pre-existing areas at the placement loops' first probes; the frame is observed by a guest program of POP+SYSCALL pairs through a hook; distinct = distinct hash of (outcome, frame shape)".into(),
        }
    }
    fn assumptions(&self, prop: &str) -> Vec<String> {
        match prop {
            "C16" => vec!["'allocation unrelated to the size of the input' is read as a single request above 256 MiB for inputs <= 1 MiB".into(), "nothing is demanded of a machine that loads successfully from a malformed image".into()],
            "C09" => vec!["images the loader rejects are C15's business and are skipped in the C09 part".into()],
            "C17" => vec!["'up to alignment padding' is read as within 64 bytes of the requested size".into(), "images rejected by the loader are C15's business and are skipped here".into()],
            _ => vec!["nothing is demanded about bytes beyond p_memsz or about addresses without symbols".into()],
        }
    }
    fn level(&self, prop: &str) -> &'static str {
        if prop == "C16" {
            "fault_enumeration"
        } else {
            "exploration"
        }
    }
}
