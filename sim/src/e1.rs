//! E1 api-sim: one machine, a history of host API calls interleaved with single guest
//! load/store/stack/fetch instructions, checked operation by operation against a reference
//! register file, byte store and interval set. Serves C07, C08, C09 (API + guest paths), C10.
//!
//! This file: scenario format, reference models, executor. Generator: e1_gen.rs.

use ax_x86::axecutor::Axecutor;
use ax_x86::state::registers::SupportedRegister;
use serde::{Deserialize, Serialize};
use serde_json::Value;

use crate::common::*;
use crate::engine::Engine;
use crate::regs::{reg_by_name, view_class, View, ALL_REGS};

#[path = "e1_gen.rs"]
pub mod gen;

#[derive(Serialize, Deserialize, Clone, Debug, PartialEq)]
#[serde(tag = "op")]
pub enum Op {
    RegWrite { w: u32, reg: String, val: String },
    RegRead { w: u32, reg: String },
    InitArea { start: u64, len: u64, seed: u64, named: bool },
    InitZero { start: u64, len: u64, named: bool },
    ZeroAnywhere { len: u64 },
    Anywhere { len: u64, seed: u64, named: bool },
    InitStack { len: u64 },
    /// init_stack_program_start with argv/envp strings of the given lengths
    ProgramStart { len: u64, argv: Vec<u64>, envp: Vec<u64> },
    Resize { start: u64, new_len: u64 },
    Prot { start: u64, prot: u32 },
    ReadBytes { addr: u64, len: u64 },
    Read { w: u32, addr: u64 },
    WriteBytes { addr: u64, len: u64, seed: u64 },
    Write { w: u32, addr: u64, val: String },
    GuestLoad { size: u32, addr: u64 },
    GuestStore { size: u32, addr: u64, val: String },
    GuestRmw { size: u32, addr: u64, val: String },
    GuestPush { rsp: u64, val: u64 },
    GuestPop { rsp: u64 },
    GuestCall { rsp: u64 },
    GuestRet { rsp: u64 },
    GuestFetch { addr: u64 },
    /// make an area executable, run `mov eax, imm1` there, overwrite only the immediate (API write or
    /// guest store), run it again: the second run must see the new bytes
    CodePatch { start: u64, off: u64, imm1: u32, imm2: u32, guest: bool },
    /// C09: the stack made by the most recent init_stack is put under `mask`, a PUSH / CALL / POP / RET is
    /// executed in its middle, and the mask is lifted again
    OnInitStack { mask: u32, kind: String },
    /// C09: `mov eax, imm32` whose first `first` bytes end an executable area at `at` and whose other bytes
    /// start the area directly behind it, which is under `mask`: unless that area may be executed too, the
    /// instruction is not in executable memory and must not run
    FetchStraddle { at: u64, first: u64, mask: u32 },
    /// C07: the machine runs its last NOP and finishes; the register file stays usable ("the state may be
    /// inspected and changed after execution")
    Finish,
}

#[derive(Serialize, Deserialize, Clone, Debug, PartialEq)]
pub struct Sc {
    pub code_start: u64,
    pub rng: u64,
    pub ops: Vec<Op>,
}

/// iteration budget of the address-space retry loops (the generator keeps legitimate searches below 2^16 probes)
pub const E1_FUEL: u64 = 1 << 18;

pub struct E1Engine;
pub static E1: E1Engine = E1Engine;

// ------------------------------------------------------------------------------------------
// guest instruction templates (the code area of every E1 machine)
// ------------------------------------------------------------------------------------------

pub struct Templates {
    pub code: Vec<u8>,
    pub load: [u64; 5],  // offsets of: mov al,[rbx] / mov ax,[rbx] / mov eax,[rbx] / mov rax,[rbx] / movups xmm0,[rbx]
    pub store: [u64; 5], // mov [rbx],al ... movups [rbx],xmm0
    pub rmw: [u64; 4],   // add [rbx],al/ax/eax/rax
    pub push: u64,       // push rax
    pub pop: u64,        // pop rax
    pub call: u64,       // call +0 (next instruction)
    pub ret: u64,        // ret
}

pub fn templates() -> Templates {
    let mut code: Vec<u8> = Vec::new();
    let mut put = |b: &[u8]| -> u64 {
        let o = code.len() as u64;
        code.extend_from_slice(b);
        code.push(0x90);
        o
    };
    let load = [put(&[0x8a, 0x03]), put(&[0x66, 0x8b, 0x03]), put(&[0x8b, 0x03]), put(&[0x48, 0x8b, 0x03]), put(&[0x0f, 0x10, 0x03])];
    let store = [put(&[0x88, 0x03]), put(&[0x66, 0x89, 0x03]), put(&[0x89, 0x03]), put(&[0x48, 0x89, 0x03]), put(&[0x0f, 0x11, 0x03])];
    let rmw = [put(&[0x00, 0x03]), put(&[0x66, 0x01, 0x03]), put(&[0x01, 0x03]), put(&[0x48, 0x01, 0x03])];
    let push = put(&[0x50]);
    let pop = put(&[0x58]);
    let call = put(&[0xe8, 0, 0, 0, 0]);
    let ret = put(&[0xc3]);
    for _ in 0..16 {
        code.push(0x90);
    }
    Templates { code, load, store, rmw, push, pop, call, ret }
}

fn size_index(size: u32) -> usize {
    match size {
        1 => 0,
        2 => 1,
        4 => 2,
        8 => 3,
        _ => 4,
    }
}

// ------------------------------------------------------------------------------------------
// reference models
// ------------------------------------------------------------------------------------------

#[derive(Clone, Debug, PartialEq)]
pub struct MArea {
    pub start: u64,
    pub len: u64,
    pub prot: u32,
    pub data: Vec<u8>,
}

#[derive(Clone, Debug)]
pub struct Model {
    pub gpr: [u64; 16],
    pub rip: u64,
    pub xmm: [u128; 16],
    pub areas: Vec<MArea>, // in ax's internal order
}

pub fn intersects(s1: u64, l1: u64, s2: u64, l2: u64) -> bool {
    if l1 == 0 || l2 == 0 {
        return false;
    }
    let e1 = s1 as u128 + l1 as u128;
    let e2 = s2 as u128 + l2 as u128;
    (s1 as u128) < e2 && (s2 as u128) < e1
}

impl Model {
    fn from_ax(ax: &Axecutor) -> Model {
        let (gpr, rip, xmm) = observe_regs(ax);
        struct O {
            gpr: [u64; 16],
            rip: u64,
            xmm: [u128; 16],
        }
        let o = O { gpr, rip, xmm };
        Model { gpr: o.gpr, rip: o.rip, xmm: o.xmm, areas: ax.verif_areas().into_iter().map(|a| MArea { start: a.start, len: a.length, prot: a.access, data: a.data }).collect() }
    }

    /// the area containing [addr, addr+len) entirely (no overflow); first match in ax's order
    fn containing(&self, addr: u64, len: u64) -> Option<usize> {
        let end = addr as u128 + len as u128;
        self.areas.iter().position(|a| a.len > 0 && a.start <= addr && end <= a.start as u128 + a.len as u128)
    }

    fn any_overlap(&self) -> bool {
        for i in 0..self.areas.len() {
            for j in i + 1..self.areas.len() {
                if intersects(self.areas[i].start, self.areas[i].len, self.areas[j].start, self.areas[j].len) {
                    return true;
                }
            }
        }
        false
    }

    fn free(&self, start: u64, len: u64, except: Option<usize>) -> bool {
        !self.areas.iter().enumerate().any(|(i, a)| Some(i) != except && intersects(start, len, a.start, a.len))
    }
}

pub fn addr_class(m: &Model, addr: u64, len: u64) -> &'static str {
    let end = addr as u128 + len as u128;
    if end > u64::MAX as u128 + 1 {
        return "wraps";
    }
    if m.containing(addr, len).is_some() {
        return "inside";
    }
    for a in m.areas.iter() {
        if a.len > 0 && a.start <= addr && (addr as u128) < a.start as u128 + a.len as u128 {
            return "straddles_end";
        }
    }
    for a in m.areas.iter() {
        if a.len > 0 && (addr as u128) < a.start as u128 && end > a.start as u128 {
            return "straddles_start";
        }
    }
    if m.areas.iter().any(|a| addr as u128 == a.start as u128 + a.len as u128) {
        return "at_end";
    }
    "unmapped"
}

pub fn len_class(len: u64) -> &'static str {
    match len {
        0 => "len0",
        1..=16 => "small",
        17..=0x10_0000 => "medium",
        _ => "huge",
    }
}

fn hexval(s: &str) -> u128 {
    u128::from_str_radix(s.trim_start_matches("0x"), 16).unwrap_or(0)
}

/// names for named areas, among them the ones the library itself hands out ("Stack", "arg0", "env0") or might
/// treat specially: a name is a label, never an address - nothing about an area may depend on it
pub fn area_name(a: u64, b: u64) -> String {
    // (the long ones put a multi-byte character across byte 32, 64 and 128 of the name)
    let k = (((a >> 4) ^ (a >> 12) ^ b) % 13) as usize;
    match k {
        10 => format!("{}€uro-zone", "x".repeat(31)),
        11 => format!("{}ключ{}", "n".repeat(63), "ß".repeat(40)),
        12 => "名".repeat(50),
        _ => ["named", "Stack", "Heap", "arg0", "env0", ".text", "TLS", "", "Stack", "named"][k].to_string(),
    }
}

pub fn fill(seed: u64, len: u64) -> Vec<u8> {
    let mut r = crate::rng::Rng::new(seed);
    if seed % 5 == 0 {
        return vec![0x90; len as usize];
    }
    r.bytes(len as usize)
}

// ------------------------------------------------------------------------------------------
// executor
// ------------------------------------------------------------------------------------------

struct Ex<'a> {
    ax: Axecutor,
    m: Model,
    t: Templates,
    code_start: u64,
    ctx: &'a mut Ctx,
    /// the no-overlap invariant is reported when it breaks, not on every later operation
    overlapping: bool,
    /// C08: address -> byte most recently written there through any path, independent of the area
    /// structure (entries are dropped when their address stops being mapped)
    flat: std::collections::BTreeMap<u64, u8>,
    finished_on_purpose: bool,
    /// (start, length) of the area the most recent successful init_stack created
    last_init_stack: Option<(u64, u64)>,
}

enum R<T> {
    Ok(T),
    Err(String),
    Panic(Panicked),
}

fn call<T>(f: impl FnOnce() -> Result<T, ax_x86::helpers::errors::AxError>) -> R<T> {
    match catch(f) {
        Ok(Ok(v)) => R::Ok(v),
        Ok(Err(e)) => match catch(|| e.to_string()) {
            Ok(s) => R::Err(s),
            Err(p) => R::Panic(p),
        },
        Err(p) => R::Panic(p),
    }
}

impl<T> R<T> {
    fn class(&self) -> String {
        match self {
            R::Ok(_) => "ok".into(),
            R::Err(_) => "err".into(),
            R::Panic(p) => format!("panic:{}", p.class()),
        }
    }
    fn is_ok(&self) -> bool {
        matches!(self, R::Ok(_))
    }
    fn detail(&self) -> String {
        match self {
            R::Ok(_) => "Ok".into(),
            R::Err(e) => format!("Err({})", e.lines().next().unwrap_or("")),
            R::Panic(p) => format!("panic({} at {})", p.msg, p.loc),
        }
    }
}

impl<'a> Ex<'a> {
    /// compare registers with the model; on mismatch report under `prop` and adopt reality
    fn check_regs(&mut self, prop: &str, sig_prefix: &str, detail: &str) {
        struct O {
            gpr: [u64; 16],
            rip: u64,
            xmm: [u128; 16],
        }
        let (gpr, rip, xmm) = observe_regs(&self.ax);
        let o = O { gpr, rip, xmm };
        let mut what = None;
        for i in 0..16 {
            if o.gpr[i] != self.m.gpr[i] {
                what = Some(format!("{} is {:#x}, model {:#x}", GPR64_NAMES[i], o.gpr[i], self.m.gpr[i]));
            }
        }
        if o.rip != self.m.rip {
            what = Some(format!("RIP is {:#x}, model {:#x}", o.rip, self.m.rip));
        }
        for i in 0..16 {
            if o.xmm[i] != self.m.xmm[i] {
                what = Some(format!("XMM{i} differs"));
            }
        }
        if let Some(w) = what {
            self.ctx.dev(prop, format!("{sig_prefix}|register_state"), format!("{detail}: {w}"));
            self.m.gpr = o.gpr;
            self.m.rip = o.rip;
            self.m.xmm = o.xmm;
        }
    }

    /// compare the area list (extents, permissions, contents) with the model; adopt reality on mismatch
    fn check_areas(&mut self, prop: &str, sig_prefix: &str, detail: &str) {
        // fast path: compare extents and contents in place, clone only on a mismatch
        let ext = self.ax.verif_area_extents();
        let same = ext.len() == self.m.areas.len()
            && ext.iter().zip(self.m.areas.iter()).all(|(e, a)| e.0 == a.start && e.1 == a.len && e.2 == a.prot && e.3 == a.data.len())
            && {
                // areas may share a start (zero-length duplicates): compare by position through the full view only then
                let mut starts: Vec<u64> = ext.iter().map(|e| e.0).collect();
                starts.sort();
                starts.dedup();
                if starts.len() != ext.len() {
                    false
                } else {
                    self.m.areas.iter().all(|a| self.ax.verif_area_data(a.start).map(|d| d == &a.data[..]).unwrap_or(false))
                }
            };
        let actual: Vec<MArea> = if same { Vec::new() } else { self.ax.verif_areas().into_iter().map(|a| MArea { start: a.start, len: a.length, prot: a.access, data: a.data }).collect() };
        if !same && actual != self.m.areas {
            let cls = if actual.len() != self.m.areas.len() {
                "area_list"
            } else {
                let mut c = "contents";
                for (a, b) in actual.iter().zip(self.m.areas.iter()) {
                    if a.start != b.start || a.len != b.len {
                        c = "extent";
                        break;
                    }
                    if a.prot != b.prot {
                        c = "permission";
                        break;
                    }
                }
                c
            };
            if cls == "permission" {
                self.ctx.dev("C09", format!("C09|{}|permission_changed", sig_prefix.split('|').nth(1).unwrap_or("?")), format!("{detail}: an area's permission mask changed although no mem_prot call asked for it"));
            } else {
                self.ctx.dev(prop, format!("{sig_prefix}|{cls}"), format!("{detail}: areas differ from the model ({cls})"));
            }
            self.m.areas = actual;
        }
        for a in self.m.areas.iter() {
            if a.data.len() as u64 != a.len {
                self.ctx.dev("C10", "C10|area|length_field_vs_data".into(), format!("area {:#x}: length {} but {} bytes of data", a.start, a.len, a.data.len()));
            }
        }
        let ov = self.m.any_overlap();
        let newly = ov && !self.overlapping;
        self.overlapping = ov;
        if newly {
            self.ctx.dev("C10", format!("C10|invariant|overlap|after={}", sig_prefix.split('|').nth(1).unwrap_or("?")), format!("{detail}: two areas intersect: {:?}", self.m.areas.iter().map(|a| (a.start, a.len)).collect::<Vec<_>>()));
            self.ctx.probe("overlap_observed");
        }
    }

    /// remember what was written (bounded: only ranges up to 8 KiB are tracked)
    /// ranges that wrap past 2^64 (and machines that contain a wrapping area) are the permissive zone
    fn flat_off(&self, addr: u64, len: usize) -> bool {
        addr as u128 + len as u128 > 1u128 << 64 || self.m.areas.iter().any(|a| a.start as u128 + a.len as u128 > 1u128 << 64)
    }

    fn flat_write(&mut self, addr: u64, data: &[u8]) {
        if data.len() > 0x2000 {
            return;
        }
        if self.flat_off(addr, data.len()) {
            self.flat.clear();
            return;
        }
        for (k, b) in data.iter().enumerate() {
            self.flat.insert(addr.wrapping_add(k as u64), *b);
        }
    }

    /// a successful read must return, for every address, the byte most recently written to that address
    fn flat_check(&mut self, name: &str, addr: u64, got: &[u8]) {
        if got.len() > 0x2000 || self.flat_off(addr, got.len()) {
            return;
        }
        for (k, b) in got.iter().enumerate() {
            if let Some(w) = self.flat.get(&addr.wrapping_add(k as u64)) {
                if w != b {
                    self.ctx.dev("C08", format!("C08|{name}|stale_or_foreign_byte"), format!("{name} at {:#x} returned {b:#04x}, the byte most recently written to that address is {w:#04x}", addr.wrapping_add(k as u64)));
                    return;
                }
            }
        }
    }

    /// forget bytes whose address is no longer mapped (after a shrink) or was re-initialised (new area, growth)
    /// a freshly created area: its initial contents are what a read must return from now on (C08: "or the
    /// initial contents"), whatever stood at those addresses before - in particular if the new area was
    /// wrongly laid over an existing one, whose bytes would then shine through
    fn flat_fresh(&mut self, start: u64, data: &[u8]) {
        self.flat_forget(start, data.len() as u64);
        if data.len() <= 0x4000 {
            self.flat_write(start, data);
        }
    }

    fn flat_forget(&mut self, start: u64, len: u64) {
        if len == 0 {
            return;
        }
        let end = start as u128 + len as u128;
        let mut keys: Vec<u64> = self.flat.range(start..).take_while(|(k, _)| (**k as u128) < end).map(|(k, _)| *k).collect();
        if end > 1u128 << 64 {
            // the range wraps around the end of the address space
            let rest = (end - (1u128 << 64)) as u64;
            keys.extend(self.flat.range(..rest).map(|(k, _)| *k));
        }
        for k in keys {
            self.flat.remove(&k);
        }
    }

    fn reg_write(&mut self, w: u32, reg: &str, val: &str) {
        let (sr, view, parent) = match reg_by_name(reg) {
            Some(x) => x,
            None => return,
        };
        // the 64-bit accessors take a u64: a larger value cannot be expressed at all
        let v = if w == 128 { hexval(val) } else { hexval(val) & u64::MAX as u128 };
        let width_ok = matches!((w, view), (8, View::BL) | (8, View::BH) | (16, View::W) | (32, View::D) | (64, View::Q) | (64, View::Ip) | (128, View::X));
        let fits = match w {
            8 => v <= 0xff,
            16 => v <= 0xffff,
            32 => v <= 0xffff_ffff,
            64 => v <= u64::MAX as u128,
            _ => true,
        };
        if !width_ok {
            self.ctx.fault("bad_register_view");
        } else if !fits {
            self.ctx.fault("oversized_value");
        }
        let r = match w {
            8 => call(|| self.ax.reg_write_8(sr, v as u64)),
            16 => call(|| self.ax.reg_write_16(sr, v as u64)),
            32 => call(|| self.ax.reg_write_32(sr, v as u64)),
            64 => call(|| self.ax.reg_write_64(sr, v as u64)),
            _ => call(|| self.ax.reg_write_128(sr, v)),
        };
        // a 64-bit API cannot even express a value above 2^64; such a request is truncated by the harness
        let expect_ok = width_ok && fits;
        self.ctx.event(&format!("reg_write{w}:{}:{}", view_class(view), r.class()), reg);
        let sig = format!("C07|write{w}|{}", view_class(view));
        if expect_ok != r.is_ok() || matches!(r, R::Panic(_)) {
            self.ctx.dev("C07", format!("{sig}|want={}|got={}", if expect_ok { "ok" } else { "err" }, r.class()), format!("reg_write_{w}({reg}, {v:#x}) -> {}", r.detail()));
        }
        if r.is_ok() && expect_ok {
            match view {
                View::BL => self.m.gpr[parent] = (self.m.gpr[parent] & !0xff) | v as u64,
                View::BH => self.m.gpr[parent] = (self.m.gpr[parent] & !0xff00) | ((v as u64) << 8),
                View::W => self.m.gpr[parent] = (self.m.gpr[parent] & !0xffff) | v as u64,
                View::D => self.m.gpr[parent] = v as u64 & 0xffff_ffff,
                View::Q => self.m.gpr[parent] = v as u64,
                View::Ip => self.m.rip = v as u64,
                View::X => self.m.xmm[parent] = v,
                View::Eip => {}
            }
        }
        self.check_regs("C07", &sig, &format!("after reg_write_{w}({reg}, {v:#x}) -> {}", r.class()));
    }

    fn reg_read(&mut self, w: u32, reg: &str) {
        let (sr, view, parent) = match reg_by_name(reg) {
            Some(x) => x,
            None => return,
        };
        let width_ok = matches!((w, view), (8, View::BL) | (8, View::BH) | (16, View::W) | (32, View::D) | (64, View::Q) | (64, View::Ip) | (128, View::X));
        if !width_ok {
            self.ctx.fault("bad_register_view");
        }
        let r: R<u128> = match w {
            8 => call(|| self.ax.reg_read_8(sr).map(|x| x as u128)),
            16 => call(|| self.ax.reg_read_16(sr).map(|x| x as u128)),
            32 => call(|| self.ax.reg_read_32(sr).map(|x| x as u128)),
            64 => call(|| self.ax.reg_read_64(sr).map(|x| x as u128)),
            _ => call(|| self.ax.reg_read_128(sr)),
        };
        self.ctx.event(&format!("reg_read{w}:{}:{}", view_class(view), r.class()), reg);
        let sig = format!("C07|read{w}|{}", view_class(view));
        if width_ok != r.is_ok() || matches!(r, R::Panic(_)) {
            self.ctx.dev("C07", format!("{sig}|want={}|got={}", if width_ok { "ok" } else { "err" }, r.class()), format!("reg_read_{w}({reg}) -> {}", r.detail()));
        }
        if let (true, R::Ok(v)) = (width_ok, &r) {
            let want: u128 = match view {
                View::BL => (self.m.gpr[parent] & 0xff) as u128,
                View::BH => ((self.m.gpr[parent] >> 8) & 0xff) as u128,
                View::W => (self.m.gpr[parent] & 0xffff) as u128,
                View::D => (self.m.gpr[parent] & 0xffff_ffff) as u128,
                View::Q => self.m.gpr[parent] as u128,
                View::Ip => self.m.rip as u128,
                View::X => self.m.xmm[parent],
                View::Eip => 0,
            };
            if *v != want {
                self.ctx.dev("C07", format!("{sig}|value"), format!("reg_read_{w}({reg}) = {v:#x}, model {want:#x}"));
            }
        }
        self.check_regs("C07", &sig, &format!("after reg_read_{w}({reg})"));
    }

    /// expected outcome of an access of `len` bytes at `addr` needing permission bits `need`
    fn access_expect(&self, addr: u64, len: u64, need: u32) -> (Option<bool>, Option<usize>, &'static str) {
        let cls = addr_class(&self.m, addr, len);
        match self.m.containing(addr, len) {
            Some(i) => {
                if len == 0 {
                    (None, Some(i), cls)
                } else if self.m.areas[i].prot & need == need {
                    // a non-default mask was involved: the verdict belongs to C09
                    (Some(true), Some(i), if self.m.areas[i].prot & 3 != 3 { if need == 2 { "write_only" } else { "masked" } } else { cls })
                } else {
                    (Some(false), Some(i), "denied")
                }
            }
            None => {
                if len == 0 {
                    // an empty access touches no byte: no verdict next to an area (at its end, right below its start);
                    // at an address that is nowhere near mapped memory it is still "an access that is unmapped"
                    let near = self.m.areas.iter().any(|a| {
                        let (s, e) = (a.start as u128, a.start as u128 + a.len as u128);
                        (addr as u128 + 1 >= s) && (addr as u128) <= e
                    });
                    (if near || cls != "unmapped" { None } else { Some(false) }, None, cls)
                } else if self.m.areas.iter().any(|a| intersects(addr, len, a.start, a.len) && a.prot & 3 != 3) {
                    // runs past the end of its area into (or out of) an area under a non-default mask: C09's verdict
                    (Some(false), None, "straddles_masked")
                } else {
                    (Some(false), None, cls)
                }
            }
        }
    }

    fn note_access_fault(&mut self, cls: &str, len: u64) {
        match cls {
            "unmapped" | "at_end" => self.ctx.fault("unmapped_access"),
            "straddles_end" | "straddles_start" | "straddles_masked" => self.ctx.fault("straddle_area_end"),
            "wraps" => self.ctx.fault("extreme_address"),
            "denied" => self.ctx.fault("perm_revoke"),
            _ => {}
        }
        if len > 0x10_0000 {
            self.ctx.fault("extreme_length");
        }
    }

    fn verdict_prop(cls: &str) -> &'static str {
        if cls == "denied" || cls == "write_only" || cls == "masked" || cls == "straddles_masked" {
            "C09"
        } else {
            "C08"
        }
    }

    fn api_read(&mut self, name: &str, addr: u64, len: u64, typed: Option<u32>) {
        let (exp, idx, cls) = self.access_expect(addr, len, 1);
        self.note_access_fault(cls, len);
        let r: R<Vec<u8>> = match typed {
            None => call(|| self.ax.mem_read_bytes(addr, len)),
            Some(8) => call(|| self.ax.mem_read_8(addr).map(|v| vec![v as u8])),
            Some(16) => call(|| self.ax.mem_read_16(addr).map(|v| (v as u16).to_le_bytes().to_vec())),
            Some(32) => call(|| self.ax.mem_read_32(addr).map(|v| (v as u32).to_le_bytes().to_vec())),
            Some(64) => call(|| self.ax.mem_read_64(addr).map(|v| v.to_le_bytes().to_vec())),
            _ => call(|| self.ax.mem_read_128(addr).map(|v| v.to_le_bytes().to_vec())),
        };
        self.ctx.event(&format!("{name}:{cls}:{}:{}", len_class(len), r.class()), &format!("{addr:x}+{len}"));
        let prop = Self::verdict_prop(cls);
        let sig = format!("{prop}|{name}|{cls}|{}", len_class(len));
        if let R::Panic(_) = r {
            self.ctx.dev(prop, format!("{sig}|{}", r.class()), format!("{name}({addr:#x}, {len}) -> {}", r.detail()));
        } else if let Some(e) = exp {
            if e != r.is_ok() {
                self.ctx.dev(prop, format!("{sig}|want={}|got={}", if e { "ok" } else { "err" }, r.class()), format!("{name}({addr:#x}, {len}) -> {}", r.detail()));
            }
        }
        if let (R::Ok(bytes), Some(i), true) = (&r, idx, exp != Some(false)) {
            let a = &self.m.areas[i];
            let off = (addr - a.start) as usize;
            if bytes.len() as u64 != len || bytes[..] != a.data[off..off + len as usize] {
                self.ctx.dev("C08", format!("C08|{name}|{cls}|{}|wrong_bytes", len_class(len)), format!("{name}({addr:#x}, {len}) returned bytes that differ from the most recent writes"));
            }
        }
        if let R::Ok(bytes) = &r {
            let b = bytes.clone();
            self.flat_check(name, addr, &b);
        }
        self.check_areas("C08", &format!("C08|{name}|changed_memory"), &format!("after {name}({addr:#x}, {len})"));
    }

    fn api_write(&mut self, name: &str, addr: u64, data: Vec<u8>, typed: Option<(u32, u128)>) {
        let len = data.len() as u64;
        let (exp, idx, cls) = self.access_expect(addr, len, 2);
        self.note_access_fault(cls, len);
        let mut exp = exp;
        let r: R<()> = match typed {
            None => call(|| self.ax.mem_write_bytes(addr, &data)),
            Some((w, v)) => {
                let fits = w >= 64 || v < (1u128 << w);
                if !fits {
                    self.ctx.fault("oversized_value");
                    exp = Some(false);
                }
                match w {
                    8 => call(|| self.ax.mem_write_8(addr, v as u64)),
                    16 => call(|| self.ax.mem_write_16(addr, v as u64)),
                    32 => call(|| self.ax.mem_write_32(addr, v as u64)),
                    64 => call(|| self.ax.mem_write_64(addr, v as u64)),
                    _ => call(|| self.ax.mem_write_128(addr, v)),
                }
            }
        };
        self.ctx.event(&format!("{name}:{cls}:{}:{}", len_class(len), r.class()), &format!("{addr:x}+{len}"));
        let prop = Self::verdict_prop(cls);
        let sig = format!("{prop}|{name}|{cls}|{}", len_class(len));
        if let R::Panic(_) = r {
            self.ctx.dev(prop, format!("{sig}|{}", r.class()), format!("{name}({addr:#x}, {len} bytes) -> {}", r.detail()));
        } else if let Some(e) = exp {
            if e != r.is_ok() {
                self.ctx.dev(prop, format!("{sig}|want={}|got={}", if e { "ok" } else { "err" }, r.class()), format!("{name}({addr:#x}, {len} bytes) -> {}", r.detail()));
            }
        }
        if let (true, Some(i), true) = (r.is_ok(), idx, exp != Some(false)) {
            let a = &mut self.m.areas[i];
            let off = (addr - a.start) as usize;
            a.data[off..off + len as usize].copy_from_slice(&data);
        }
        if r.is_ok() {
            self.flat_write(addr, &data);
        }
        let p2 = Self::verdict_prop(cls);
        self.check_areas(p2, &format!("{p2}|{name}|{}", if r.is_ok() { "wrote_other_bytes" } else { "failed_write_changed_memory" }), &format!("after {name}({addr:#x}, {len} bytes) -> {}", r.class()));
    }

    /// run one template instruction with RBX = addr
    fn guest(&mut self, kind: &str, size: u32, addr: u64, val: u128) {
        let si = size_index(size);
        let (off, need): (u64, u32) = match kind {
            "load" => (self.t.load[si], 1),
            "store" => (self.t.store[si], 2),
            _ => (self.t.rmw[si.min(3)], 3),
        };
        let size = if kind == "rmw" && size == 16 { 8 } else { size };
        let rip = self.code_start + off;
        // set up registers through the API (model follows)
        let _ = self.ax.reg_write_64(SupportedRegister::RIP, rip);
        let _ = self.ax.reg_write_64(SupportedRegister::RBX, addr);
        self.m.rip = rip;
        self.m.gpr[1] = addr;
        if size == 16 {
            if kind == "store" {
                let _ = self.ax.reg_write_128(SupportedRegister::XMM0, val);
                self.m.xmm[0] = val;
            }
        } else if kind != "load" {
            let _ = self.ax.reg_write_64(SupportedRegister::RAX, val as u64);
            self.m.gpr[0] = val as u64;
        }
        let (exp, idx, cls) = self.access_expect(addr, size as u64, need);
        self.note_access_fault(cls, size as u64);
        let flags_before = self.ax.verif_rflags();
        let out = do_step(&mut self.ax);
        self.ctx.guest_steps += 1;
        let oc = match &out {
            StepOut::Ok(_) => "ok".to_string(),
            StepOut::Err(_) => "err".to_string(),
            StepOut::Panic(p) => format!("panic:{}", p.class()),
        };
        let name = format!("guest_{kind}{size}");
        self.ctx.event(&format!("{name}:{cls}:{oc}"), &format!("{addr:x}"));
        let prop = Self::verdict_prop(cls);
        let sig = format!("{prop}|{name}|{cls}");
        let ok = matches!(out, StepOut::Ok(_));
        if let StepOut::Panic(p) = &out {
            self.ctx.dev(prop, format!("{sig}|{oc}"), format!("{name} at {addr:#x} panicked: {} at {}", p.msg, p.loc));
        } else if let Some(e) = exp {
            if e != ok {
                self.ctx.dev(prop, format!("{sig}|want={}|got={oc}", if e { "ok" } else { "err" }), format!("{name} at {addr:#x}: {out:?}"));
            }
        }
        // model the effect
        let next = rip + match (kind, si) {
            ("load", 0) | ("store", 0) | ("rmw", 0) => 2,
            ("load", 1) | ("store", 1) | ("rmw", 1) => 3,
            ("load", 2) | ("store", 2) | ("rmw", 2) => 2,
            _ => 3,
        };
        // RIP is written before the instruction executes, also when it then fails
        self.m.rip = next;
        if let (true, Some(i), Some(true)) = (ok, idx, exp) {
            let o = (addr - self.m.areas[i].start) as usize;
            let n = size as usize;
            match kind {
                "load" => {
                    let mut b = [0u8; 16];
                    b[..n].copy_from_slice(&self.m.areas[i].data[o..o + n]);
                    let v = u128::from_le_bytes(b);
                    match size {
                        1 => self.m.gpr[0] = (self.m.gpr[0] & !0xff) | v as u64,
                        2 => self.m.gpr[0] = (self.m.gpr[0] & !0xffff) | v as u64,
                        4 => self.m.gpr[0] = v as u64 & 0xffff_ffff,
                        8 => self.m.gpr[0] = v as u64,
                        _ => self.m.xmm[0] = v,
                    }
                }
                "store" => {
                    let v = if size == 16 { self.m.xmm[0] } else { self.m.gpr[0] as u128 };
                    self.m.areas[i].data[o..o + n].copy_from_slice(&v.to_le_bytes()[..n]);
                }
                _ => {
                    let mut b = [0u8; 16];
                    b[..n].copy_from_slice(&self.m.areas[i].data[o..o + n]);
                    let cur = u128::from_le_bytes(b);
                    let mask: u128 = if n == 8 { u64::MAX as u128 } else { (1u128 << (8 * n)) - 1 };
                    let sum = (cur + (self.m.gpr[0] as u128 & mask)) & mask;
                    self.m.areas[i].data[o..o + n].copy_from_slice(&sum.to_le_bytes()[..n]);
                }
            }
        } else if ok {
            // unexpected success: adopt whatever happened
            let (gpr, _, xmm) = observe_regs(&self.ax);
            self.m.gpr = gpr;
            self.m.xmm = xmm;
        }
        if ok {
            let n = size as usize;
            match kind {
                "store" => {
                    let v = if size == 16 { self.ax.reg_read_128(SupportedRegister::XMM0).unwrap_or(0) } else { self.ax.reg_read_64(SupportedRegister::RAX).unwrap_or(0) as u128 };
                    let bytes = v.to_le_bytes()[..n].to_vec();
                    self.flat_write(addr, &bytes);
                }
                "load" => {
                    let v = if size == 16 { self.ax.reg_read_128(SupportedRegister::XMM0).unwrap_or(0) } else { self.ax.reg_read_64(SupportedRegister::RAX).unwrap_or(0) as u128 };
                    let bytes = v.to_le_bytes()[..n].to_vec();
                    let nm = format!("guest_load{size}");
                    self.flat_check(&nm, addr, &bytes);
                }
                _ => {
                    // read-modify-write: the new bytes are whatever the API reads back now
                    if let Ok(Ok(b)) = catch(|| self.ax.mem_read_bytes(addr, n as u64)) {
                        self.flat_write(addr, &b);
                    } else {
                        self.flat_forget(addr, n as u64);
                    }
                }
            }
        }
        if kind != "rmw" && self.ax.verif_rflags() != flags_before {
            self.ctx.dev("C08", format!("C08|{name}|flags_changed"), "a MOV changed the flags".into());
        }
        self.check_regs("C08", &format!("C08|{name}|{cls}"), &format!("after {name} at {addr:#x} -> {oc}"));
        let p2 = Self::verdict_prop(cls);
        self.check_areas(p2, &format!("{p2}|{name}|{}", if ok { "wrote_other_bytes" } else { "failed_access_changed_memory" }), &format!("after {name} at {addr:#x} -> {oc}"));
    }

    /// implicit stack accesses: the whole stack window must lie in one area, so the verdict does
    /// not depend on which slot the emulator's push/pop convention uses (C04 is not decided here)
    fn guest_stack(&mut self, kind: &str, rsp: u64, val: u64) {
        let (off, need) = match kind {
            "push" => (self.t.push, 2u32),
            "pop" => (self.t.pop, 1),
            "call" => (self.t.call, 2),
            _ => (self.t.ret, 1),
        };
        if kind == "ret" && rsp.wrapping_add(8) == self.ax.verif_stack_top() {
            // a RET at the top of the stack init_stack set up is the top-level return that ends the run (C11)
            self.ctx.probe("ret_at_stack_top_skipped");
            return;
        }
        let rip = self.code_start + off;
        let _ = self.ax.reg_write_64(SupportedRegister::RIP, rip);
        let _ = self.ax.reg_write_64(SupportedRegister::RSP, rsp);
        let _ = self.ax.reg_write_64(SupportedRegister::RAX, val);
        self.m.rip = rip;
        self.m.gpr[6] = rsp;
        self.m.gpr[0] = val;
        // window [rsp-8, rsp+16): if it is inside one area the access is valid whichever slot is used;
        // if it touches no area at all the access is invalid; otherwise no verdict
        let lo = rsp.wrapping_sub(8);
        let window_wraps = rsp < 8 || rsp > u64::MAX - 16;
        let inside = if !window_wraps { self.m.containing(lo, 24) } else { None };
        let touches = self.m.areas.iter().any(|a| intersects(lo, 24, a.start, a.len)) || rsp < 8 || rsp > u64::MAX - 16;
        let exp: Option<bool> = match inside {
            Some(i) => Some(self.m.areas[i].prot & need == need),
            None => {
                if !touches {
                    Some(false)
                } else {
                    None
                }
            }
        };
        let cls = match (inside, exp) {
            (Some(_), Some(true)) => "inside",
            (Some(_), _) => "denied",
            (None, Some(false)) => "unmapped",
            _ => "edge",
        };
        self.note_access_fault(cls, 8);
        let before = self.m.areas.clone();
        let out = do_step(&mut self.ax);
        self.ctx.guest_steps += 1;
        let ok = matches!(out, StepOut::Ok(_));
        let oc = match &out {
            StepOut::Ok(_) => "ok".to_string(),
            StepOut::Err(_) => "err".to_string(),
            StepOut::Panic(p) => format!("panic:{}", p.class()),
        };
        let name = format!("guest_{kind}");
        self.ctx.event(&format!("{name}:{cls}:{oc}"), &format!("{rsp:x}"));
        let prop = Self::verdict_prop(cls);
        if let StepOut::Panic(p) = &out {
            self.ctx.dev(prop, format!("{prop}|{name}|{cls}|{oc}"), format!("{name} with RSP {rsp:#x} panicked: {} at {}", p.msg, p.loc));
        } else if let Some(e) = exp {
            if e != ok {
                self.ctx.dev(prop, format!("{prop}|{name}|{cls}|want={}|got={oc}", if e { "ok" } else { "err" }), format!("{name} with RSP {rsp:#x}: {out:?}"));
            }
        }
        // effects: adopt registers (their exact values are C04's business), but memory may only
        // change inside the window, and not at all when the step failed
        let actual: Vec<MArea> = self.ax.verif_areas().into_iter().map(|a| MArea { start: a.start, len: a.length, prot: a.access, data: a.data }).collect();
        if actual.len() == before.len() {
            for (a, b) in actual.iter().zip(before.iter()) {
                if a.start != b.start || a.len != b.len || a.prot != b.prot {
                    self.ctx.dev("C08", format!("C08|{name}|extent_changed"), "a stack instruction changed an area's extent or permission".into());
                    break;
                }
                if a.data != b.data {
                    let mut outside = false;
                    for (k, (x, y)) in a.data.iter().zip(b.data.iter()).enumerate() {
                        if x != y {
                            let ad = a.start + k as u64;
                            if !(ad >= lo && (ad as u128) < lo as u128 + 24) {
                                outside = true;
                            }
                        }
                    }
                    if !ok {
                        self.ctx.dev(prop, format!("{prop}|{name}|failed_access_changed_memory"), format!("{name} failed but memory changed"));
                    } else if window_wraps {
                        // the window wraps around the end of the address space: no claim about which bytes it covers
                    } else if outside {
                        self.ctx.dev("C08", format!("C08|{name}|wrote_other_bytes"), format!("{name} changed bytes outside the stack window"));
                    } else if kind == "pop" || kind == "ret" {
                        self.ctx.dev("C08", format!("C08|{name}|load_changed_memory"), format!("{name} changed memory"));
                    }
                }
            }
        }
        self.m = Model::from_ax(&self.ax);
        self.flat_forget(lo, 24);
    }

    /// instruction fetch is a read like any other: it must return the bytes most recently written,
    /// also when only the tail of an already executed instruction was overwritten
    fn code_patch(&mut self, start: u64, off: u64, imm1: u32, imm2: u32, guest: bool) {
        if self.overlapping || self.m.areas.iter().filter(|a| a.start == start).count() != 1 {
            return;
        }
        let i = self.m.areas.iter().position(|a| a.start == start).unwrap();
        let (len, old_prot) = (self.m.areas[i].len, self.m.areas[i].prot);
        let addr = start.wrapping_add(off);
        if len < 8 || off > len - 8 || (addr as u128 + 8) > (1u128 << 64) || self.m.containing(addr, 8) != Some(i) {
            self.ctx.probe("code_patch_skipped");
            return;
        }
        self.prot(start, 7);
        let mut code = vec![0xb8u8];
        code.extend_from_slice(&imm1.to_le_bytes());
        code.extend_from_slice(&[0x90, 0x90, 0x90]);
        self.api_write("write_bytes", addr, code, None);
        let mut run = |this: &mut Self| -> Option<u64> {
            let _ = this.ax.reg_write_64(SupportedRegister::RIP, addr);
            let _ = this.ax.reg_write_64(SupportedRegister::RAX, 0x1111_2222_3333_4444);
            let out = do_step(&mut this.ax);
            this.ctx.guest_steps += 1;
            let rax = this.ax.reg_read_64(SupportedRegister::RAX).ok();
            let o = Model::from_ax(&this.ax);
            this.m.gpr = o.gpr;
            this.m.rip = o.rip;
            match out {
                StepOut::Ok(_) => rax,
                StepOut::Err(_) => None,
                StepOut::Panic(p) => {
                    this.ctx.dev("C08", format!("C08|code_patch|{}", p.class()), format!("executing patched code at {addr:#x} panicked: {} at {}", p.msg, p.loc));
                    None
                }
            }
        };
        let first = run(self);
        if first != Some(imm1 as u64) {
            self.ctx.dev("C08", "C08|code_patch|first_execution".into(), format!("mov eax, {imm1:#x} written to {addr:#x} gave RAX = {first:x?}"));
        }
        if guest {
            self.guest("store", 4, addr + 1, imm2 as u128);
        } else {
            self.api_write("write_bytes", addr + 1, imm2.to_le_bytes().to_vec(), None);
        }
        let second = run(self);
        self.ctx.event(&format!("code_patch:{}:{}", if guest { "guest_store" } else { "api_write" }, if second == Some(imm2 as u64) { "fresh" } else { "other" }), "");
        if second != Some(imm2 as u64) {
            let cls = if second == Some(imm1 as u64) && imm1 != imm2 { "stale_instruction_bytes" } else { "patched_instruction_result" };
            self.ctx.dev("C08", format!("C08|fetch|{cls}"), format!("the immediate of an executed mov eax, imm32 at {addr:#x} was overwritten with {imm2:#x} ({}); executing it again gave RAX = {second:x?}", if guest { "guest store" } else { "mem_write_bytes" }));
        }
        self.prot(start, old_prot);
    }

    fn fetch_straddle(&mut self, at: u64, first: u64, mask: u32) {
        if self.overlapping || !self.m.free(at, 48, None) || first == 0 || first >= 5 {
            self.ctx.probe("fetch_straddle_skipped");
            return;
        }
        let insn = [0xb8u8, 0x11, 0x22, 0x33, 0x44];
        let mut a = vec![0x90u8; 32];
        a[32 - first as usize..].copy_from_slice(&insn[..first as usize]);
        let mut b = vec![0x90u8; 16];
        b[..5 - first as usize].copy_from_slice(&insn[first as usize..]);
        self.create("init_area", at, a, false, false);
        self.create("init_area", at + 32, b, false, false);
        self.prot(at, 5);
        self.prot(at + 32, mask);
        let rip = at + 32 - first;
        let _ = self.ax.reg_write_64(SupportedRegister::RIP, rip);
        let _ = self.ax.reg_write_64(SupportedRegister::RAX, 0x1111_2222_3333_4444);
        let before = self.ax.verif_areas();
        let out = do_step(&mut self.ax);
        self.ctx.guest_steps += 1;
        let rax = self.ax.reg_read_64(SupportedRegister::RAX).unwrap_or(0);
        let oc = match &out {
            StepOut::Ok(_) => "ok".to_string(),
            StepOut::Err(_) => "err".to_string(),
            StepOut::Panic(p) => format!("panic:{}", p.class()),
        };
        self.ctx.event(&format!("fetch_straddle:{}:{oc}", if mask & 4 != 0 { "next_executable" } else { "next_denied" }), &format!("{first} {mask}"));
        self.note_access_fault("denied", 1);
        if let StepOut::Panic(p) = &out {
            self.ctx.dev("C09", format!("C09|fetch_straddle|{oc}"), format!("fetching an instruction that straddles two areas panicked: {} at {}", p.msg, p.loc));
        } else if mask & 4 == 0 {
            // (if the next area is executable too the CPU would run the instruction; ax fetches from one area only -
            // no verdict there)
            if matches!(out, StepOut::Ok(_)) || rax != 0x1111_2222_3333_4444 {
                self.ctx.dev("C09", "C09|fetch_straddle|next_area_denied|want=err|got=ok".into(), format!("mov eax, imm32 with {first} byte(s) at the end of an executable area and the rest in an area with rights {mask} was executed (RAX = {rax:#x}): {out:?}").chars().take(400).collect());
            }
            if self.ax.verif_areas().iter().zip(before.iter()).any(|(x, y)| x.data != y.data) {
                self.ctx.dev("C09", "C09|fetch_straddle|failed_access_changed_memory".into(), "a refused fetch changed memory".into());
            }
        }
        let o = Model::from_ax(&self.ax);
        self.m.gpr = o.gpr;
        self.m.rip = o.rip;
        self.prot(at + 32, 3);
    }

    fn on_init_stack(&mut self, mask: u32, kind: &str) {
        let (start, len) = match self.last_init_stack {
            Some(x) if x.1 >= 64 && self.m.areas.iter().filter(|a| a.start == x.0).count() == 1 => x,
            _ => {
                self.ctx.probe("on_init_stack_skipped");
                return;
            }
        };
        self.prot(start, mask);
        let rsp = (start + len / 2) & !7;
        // (never the RET that would legitimately end the run)
        let kind = if kind == "ret" && rsp.wrapping_add(8) == self.ax.verif_stack_top() { "pop" } else { kind };
        self.guest_stack(kind, rsp, 0x5a5a_5a5a);
        self.prot(start, 3);
    }

    fn finish(&mut self) {
        let last = self.code_start + self.t.code.len() as u64 - 1;
        let _ = self.ax.reg_write_64(SupportedRegister::RIP, last);
        let out = do_step(&mut self.ax);
        self.ctx.guest_steps += 1;
        self.finished_on_purpose = true;
        self.ctx.event(&format!("finish:{}", self.ax.verif_finished()), "");
        if !matches!(out, StepOut::Ok(_)) || !self.ax.verif_finished() {
            self.ctx.harness_errors.push(format!("E1 finish step did not finish the machine: {out:?}"));
        }
        self.ctx.fault("register_api_after_finish");
        let o = Model::from_ax(&self.ax);
        self.m.gpr = o.gpr;
        self.m.rip = o.rip;
        self.m.xmm = o.xmm;
    }

    fn guest_fetch(&mut self, addr: u64) {
        let _ = self.ax.reg_write_64(SupportedRegister::RIP, addr);
        self.m.rip = addr;
        // expectation only when the bytes at addr are a NOP inside an area (then only X matters)
        let i = self.m.containing(addr, 1);
        let exp: Option<bool> = match i {
            Some(i) => {
                let a = &self.m.areas[i];
                let b = a.data[(addr - a.start) as usize];
                if b == 0x90 {
                    Some(a.prot & 4 != 0)
                } else if a.prot & 4 == 0 {
                    Some(false)
                } else {
                    None
                }
            }
            None => Some(false),
        };
        let cls = match (i, exp) {
            (None, _) => "unmapped",
            (Some(_), Some(false)) => "denied",
            _ => "inside",
        };
        self.note_access_fault(cls, 1);
        let before = self.m.areas.clone();
        let fin_before = self.ax.verif_finished();
        let out = do_step(&mut self.ax);
        self.ctx.guest_steps += 1;
        let ok = matches!(out, StepOut::Ok(_));
        let oc = match &out {
            StepOut::Ok(_) => "ok".to_string(),
            StepOut::Err(_) => "err".to_string(),
            StepOut::Panic(p) => format!("panic:{}", p.class()),
        };
        self.ctx.event(&format!("guest_fetch:{cls}:{oc}"), &format!("{addr:x}"));
        let prop = if cls == "unmapped" { "C08" } else { "C09" };
        if let StepOut::Panic(p) = &out {
            if exp.is_some() {
                self.ctx.dev(prop, format!("{prop}|guest_fetch|{cls}|{oc}"), format!("fetch at {addr:#x} panicked: {} at {}", p.msg, p.loc));
            }
        } else if let (Some(e), false) = (exp, fin_before) {
            if e != ok {
                self.ctx.dev(prop, format!("{prop}|guest_fetch|{cls}|want={}|got={oc}", if e { "ok" } else { "err" }), format!("fetch at {addr:#x} (area permission {:?}): {out:?}", i.map(|i| self.m.areas[i].prot)));
            }
        }
        if exp == Some(false) {
            let actual: Vec<MArea> = self.ax.verif_areas().into_iter().map(|a| MArea { start: a.start, len: a.length, prot: a.access, data: a.data }).collect();
            if actual != before {
                self.ctx.dev(prop, format!("{prop}|guest_fetch|failed_access_changed_memory"), "a refused fetch changed memory".into());
            }
        }
        self.m = Model::from_ax(&self.ax);
    }

    fn relation(&self, start: u64, len: u64) -> &'static str {
        if len == 0 {
            return "len0";
        }
        if start as u128 + len as u128 > u64::MAX as u128 + 1 {
            return "wraps";
        }
        let mut rel = "free";
        for a in self.m.areas.iter() {
            if a.len == 0 {
                continue;
            }
            let (s, e) = (start as u128, start as u128 + len as u128);
            let (as_, ae) = (a.start as u128, a.start as u128 + a.len as u128);
            if s == as_ && e == ae {
                return "identical";
            }
            if s >= as_ && e <= ae {
                return "inside";
            }
            if s <= as_ && e >= ae {
                return "enclosing";
            }
            if s < as_ && e > as_ {
                return "overlap_from_below";
            }
            if s < ae && e > ae {
                return "overlap_from_above";
            }
            if e == as_ || s == ae {
                rel = "abutting";
            }
        }
        rel
    }

    fn create(&mut self, name: &str, start: u64, data: Vec<u8>, named: bool, zero: bool) {
        let len = data.len() as u64;
        let rel = self.relation(start, len);
        match rel {
            "inside" | "identical" => self.ctx.fault("overlap_request_inside"),
            "enclosing" => self.ctx.fault("overlap_request_enclosing"),
            "overlap_from_below" => self.ctx.fault("overlap_request_below"),
            "overlap_from_above" => self.ctx.fault("overlap_request_above"),
            "abutting" => self.ctx.fault("overlap_request_abutting"),
            "len0" => self.ctx.fault("zero_length_request"),
            "wraps" => self.ctx.fault("extreme_address"),
            _ => {}
        }
        let before_n = self.m.areas.len();
        let r: R<()> = match (zero, named) {
            (true, false) => call(|| self.ax.mem_init_zero(start, len)),
            (true, true) => call(|| self.ax.mem_init_zero_named(start, len, area_name(start, len))),
            (false, false) => call(|| self.ax.mem_init_area(start, data.clone())),
            (false, true) => call(|| self.ax.mem_init_area_named(start, data.clone(), Some(area_name(start, len)))),
        };
        self.ctx.event(&format!("{name}:{rel}:{}", r.class()), &format!("{start:x}+{len}"));
        let exp: Option<bool> = match rel {
            "len0" | "wraps" => None,
            "free" | "abutting" => Some(true),
            _ => Some(false),
        };
        let sig = format!("C10|{name}|{rel}");
        if let R::Panic(_) = r {
            self.ctx.dev("C10", format!("{sig}|{}", r.class()), format!("{name}({start:#x}, {len}) -> {}", r.detail()));
        } else if let Some(e) = exp {
            if e != r.is_ok() {
                self.ctx.dev("C10", format!("{sig}|{}", if e { "rejected_free_range" } else { "accepted_overlap" }), format!("{name}({start:#x}, {len}) -> {}; areas {:?}", r.detail(), self.m.areas.iter().map(|a| (a.start, a.len)).collect::<Vec<_>>()));
            }
        }
        if r.is_ok() {
            self.flat_fresh(start, &data);
            self.m.areas.push(MArea { start, len, prot: 3, data });
            // C09: a fresh area starts out readable and writable and nothing else, whatever stood at its
            // address before (an emptied area that had been put under another mask, say)
            if len > 0 {
                if let Some(a) = self.ax.verif_areas().into_iter().find(|a| a.start == start && a.length == len) {
                    if a.access != 3 {
                        self.ctx.dev("C09", format!("C09|{name}|fresh_area_permissions"), format!("the area just created at {start:#x} (+{len}) has permissions {} instead of read+write", a.access));
                    }
                }
            }
        }
        self.check_areas("C10", &format!("C10|{name}|{}", if r.is_ok() { "created_area_differs" } else { "rejected_request_changed_areas" }), &format!("after {name}({start:#x}, {len}) -> {}", r.class()));
        if rel == "wraps" && r.is_ok() && self.m.areas.len() > before_n {
            // a wrapping range must not make low addresses accessible
            if let R::Ok(_) = call(|| self.ax.mem_read_bytes(0, 1)) {
                if self.m.containing(0, 1).is_none() {
                    self.ctx.dev("C10", "C10|wrap|low_addresses_readable".into(), "after a wrapping area was accepted address 0 became readable".into());
                }
            }
        }
    }

    fn anywhere(&mut self, name: &str, data: Vec<u8>, zero: bool, named: bool) {
        let len = data.len() as u64;
        if len == 0 {
            self.ctx.fault("zero_length_request");
        }
        // bounded liveness is judged only where a correct search is short: count the probes the
        // loop needs on the model layout and skip requests whose legitimate search is long
        if len > 0 {
            let mut s: u64 = 0x1000;
            let mut n: u64 = 0;
            while !self.m.free(s, len, None) && n <= E1_FUEL / 4 {
                s = s.wrapping_add(len);
                n += 1;
            }
            // an implementation may also pass over a free candidate at which another (empty) area starts -
            // areas are addressed by their start - and search on from there: legitimate, and possibly long
            let mut s2: u64 = 0x1000;
            let mut n2: u64 = 0;
            while (!self.m.free(s2, len, None) || self.m.areas.iter().any(|a| a.start == s2)) && n2 <= E1_FUEL / 4 {
                s2 = s2.wrapping_add(len);
                n2 += 1;
            }
            if n > E1_FUEL / 4 || n2 > E1_FUEL / 4 {
                self.ctx.probe("anywhere_skipped_long_search");
                return;
            }
        }
        ax_x86::verif::set_fuel(Some(E1_FUEL));
        let r: R<u64> = if zero {
            call(|| self.ax.mem_init_zero_anywhere(len))
        } else {
            call(|| self.ax.mem_init_anywhere(data.clone(), if named { Some(area_name(len, data.first().copied().unwrap_or(0) as u64)) } else { None }))
        };
        let fuel_out = ax_x86::verif::fuel_was_exhausted();
        ax_x86::verif::set_fuel(Some(E1_FUEL));
        self.ctx.event(&format!("{name}:{}:{}", len_class(len), r.class()), &format!("{len}"));
        let sig = format!("C10|{name}|{}", len_class(len));
        match &r {
            R::Ok(start) => {
                if !self.m.free(*start, len, None) {
                    self.ctx.dev("C10", format!("{sig}|returned_range_overlaps"), format!("{name}({len}) returned {start:#x} which intersects an existing area"));
                }
                self.flat_fresh(*start, &data);
                self.m.areas.push(MArea { start: *start, len, prot: 3, data });
                self.ctx.probe("anywhere_ok");
                if self.m.areas.len() > 1 && *start != 0x1000 {
                    self.ctx.probe("anywhere_probe_retries");
                }
            }
            R::Err(_) => {
                if fuel_out {
                    self.ctx.fault("fuel_exhausted");
                    self.ctx.dev("C10", format!("{sig}|fuel_exhausted"), format!("{name}({len}) did not terminate within the retry budget (hang)"));
                } else {
                    self.ctx.dev("C10", format!("{sig}|failed"), format!("{name}({len}) -> {}", r.detail()));
                }
            }
            R::Panic(_) => self.ctx.dev("C10", format!("{sig}|{}", r.class()), format!("{name}({len}) -> {}", r.detail())),
        }
        self.check_areas("C10", &format!("C10|{name}|created_area_differs"), &format!("after {name}({len}) -> {}", r.class()));
    }

    fn init_stack(&mut self, len: u64) {
        ax_x86::verif::set_fuel(Some(E1_FUEL));
        let r = call(|| self.ax.init_stack(len));
        let fuel_out = ax_x86::verif::fuel_was_exhausted();
        self.ctx.event(&format!("init_stack:{}:{}", len_class(len), r.class()), &format!("{len}"));
        let sig = format!("C10|init_stack|{}", len_class(len));
        match &r {
            R::Ok(start) => {
                if !self.m.free(*start, len, None) {
                    self.ctx.dev("C10", format!("{sig}|returned_range_overlaps"), format!("init_stack({len}) placed the stack at {start:#x} which intersects an existing area"));
                }
                if len <= 0x4000 {
                    self.flat_fresh(*start, &vec![0u8; len as usize]);
                } else {
                    self.flat_forget(*start, len);
                }
                self.m.areas.push(MArea { start: *start, len, prot: 3, data: vec![0; len as usize] });
                self.m.gpr[6] = self.ax.reg_read_64(SupportedRegister::RSP).unwrap_or(0);
                self.last_init_stack = Some((*start, len));
            }
            R::Err(_) => {
                let mut any_free = false;
                let mut s: u64 = 0x1000;
                while s < 0x7fff_ffff_ffff_ffff {
                    if self.m.free(s, len, None) {
                        any_free = true;
                        break;
                    }
                    s <<= 1;
                }
                if fuel_out {
                    self.ctx.dev("C10", format!("{sig}|fuel_exhausted"), "init_stack did not terminate within the retry budget".into());
                } else if any_free {
                    self.ctx.dev("C10", format!("{sig}|failed"), format!("init_stack({len}) -> {}", r.detail()));
                }
            }
            R::Panic(_) => self.ctx.dev("C10", format!("{sig}|{}", r.class()), format!("init_stack({len}) -> {}", r.detail())),
        }
        self.check_areas("C10", "C10|init_stack|created_area_differs", &format!("after init_stack({len}) -> {}", r.class()));
    }

    /// init_stack_program_start creates one area per string plus the stack: whatever it creates must
    /// be disjoint from everything that existed and from each other, old areas stay as they were,
    /// and the stack holds at least the requested length with RSP inside it
    fn program_start(&mut self, len: u64, argv: &[u64], envp: &[u64]) {
        let mk = |ls: &[u64], c: char| -> Vec<String> { ls.iter().map(|n| std::iter::repeat(c).take(*n as usize).collect()).collect() };
        let (a, e) = (mk(argv, 'a'), mk(envp, 'e'));
        // as for 'anywhere': termination is judged only where the legitimate linear searches for the
        // strings are short on the model layout
        {
            let mut placed: Vec<(u64, u64)> = Vec::new();
            let mut n: u64 = 0;
            for l in argv.iter().chain(envp.iter()).map(|n| n + 1) {
                let mut s: u64 = 0x1000;
                while (!self.m.free(s, l, None) || placed.iter().any(|p| intersects(s, l, p.0, p.1))) && n <= E1_FUEL / 4 {
                    s = s.wrapping_add(l);
                    n += 1;
                }
                placed.push((s, l));
            }
            if n > E1_FUEL / 4 {
                self.ctx.probe("program_start_skipped_long_search");
                return;
            }
        }
        ax_x86::verif::set_fuel(Some(E1_FUEL));
        let r = call(|| self.ax.init_stack_program_start(len, a, e));
        let fuel_out = ax_x86::verif::fuel_was_exhausted();
        self.ctx.event(&format!("program_start:{}:{}:{}:{}", len_class(len), argv.len(), envp.len(), r.class()), &format!("{len}"));
        let sig = format!("C10|program_start|{}", len_class(len));
        if let R::Panic(_) = r {
            self.ctx.dev("C10", format!("{sig}|{}", r.class()), format!("init_stack_program_start({len}, {argv:?}, {envp:?}) -> {}", r.detail()));
        }
        if fuel_out {
            self.ctx.dev("C10", format!("{sig}|fuel_exhausted"), "init_stack_program_start did not terminate within the retry budget".into());
        }
        let after = Model::from_ax(&self.ax);
        let mut old: Vec<(u64, u64)> = self.m.areas.iter().map(|a| (a.start, a.len)).collect();
        let mut fresh: Vec<MArea> = Vec::new();
        for a in after.areas.iter() {
            if let Some(k) = old.iter().position(|o| *o == (a.start, a.len)) {
                old.swap_remove(k);
            } else {
                fresh.push(MArea { start: a.start, len: a.len, prot: a.prot, data: a.data.clone() });
            }
        }
        for (k, f) in fresh.iter().enumerate() {
            let clash_old = !self.m.free(f.start, f.len, None);
            let clash_new = fresh.iter().enumerate().any(|(j, g)| j != k && intersects(f.start, f.len, g.start, g.len));
            if clash_old || clash_new {
                self.ctx.dev("C10", format!("{sig}|created_area_overlaps"), format!("init_stack_program_start({len}, {argv:?}, {envp:?}) created [{:#x},+{:#x}) which intersects {} area", f.start, f.len, if clash_old { "an existing" } else { "another new" }));
            }
        }
        if let R::Ok(_) = &r {
            let rsp = self.ax.reg_read_64(SupportedRegister::RSP).unwrap_or(0);
            match fresh.iter().find(|f| f.len > 0 && f.start <= rsp && (rsp as u128) < f.start as u128 + f.len as u128) {
                Some(f) if f.len >= len => {}
                Some(f) => self.ctx.dev("C10", format!("{sig}|stack_shorter_than_requested"), format!("stack area has {:#x} bytes, {len:#x} requested", f.len)),
                None => {
                    if len > 0 {
                        self.ctx.dev("C10", format!("{sig}|rsp_outside_new_stack"), format!("RSP {rsp:#x} is in no area created by the call"))
                    }
                }
            }
        }
        for f in fresh {
            self.flat_forget(f.start, f.len);
            self.m.areas.push(f);
        }
        self.m.gpr[6] = self.ax.reg_read_64(SupportedRegister::RSP).unwrap_or(0);
        self.check_areas("C10", "C10|program_start|existing_area_changed", &format!("after init_stack_program_start({len}, {argv:?}, {envp:?}) -> {}", r.class()));
    }

    fn resize(&mut self, start: u64, new_len: u64) {
        if self.m.areas.iter().filter(|a| a.start == start).count() > 1 {
            // several areas share this start (only possible with zero-length areas): which one is
            // meant is not defined; perform the call, demand no crash, adopt the result
            let r = call(|| self.ax.mem_resize_section(start, new_len));
            if let R::Panic(_) = r {
                self.ctx.dev("C10", format!("C10|resize|ambiguous_start|{}", r.class()), format!("mem_resize_section({start:#x}, {new_len}) -> {}", r.detail()));
            }
            self.ctx.event("resize:ambiguous_start", &r.class());
            // whichever of them was resized: bytes in the span of the longest of them and of the request
            // may have come or gone
            let span = self.m.areas.iter().filter(|a| a.start == start).map(|a| a.len).max().unwrap_or(0).max(new_len);
            self.flat_forget(start, span);
            let o = Model::from_ax(&self.ax);
            self.m.areas = o.areas;
            self.check_areas("C10", "C10|resize|ambiguous_start", &format!("after mem_resize_section({start:#x}, {new_len}) -> {}", r.class()));
            return;
        }
        let idx = self.m.areas.iter().position(|a| a.start == start);
        let r = call(|| self.ax.mem_resize_section(start, new_len));
        let rel = match idx {
            None => "unknown_start",
            Some(i) => {
                let a = &self.m.areas[i];
                if new_len as u128 + start as u128 > u64::MAX as u128 + 1 {
                    "wraps"
                } else if !self.m.free(start, new_len, Some(i)) {
                    "collides"
                } else if new_len > a.len {
                    "grow_free"
                } else if new_len < a.len {
                    "shrink"
                } else {
                    "same"
                }
            }
        };
        match rel {
            "collides" => self.ctx.fault("resize_collision"),
            "unknown_start" => self.ctx.fault("resize_unknown_start"),
            "grow_free" => self.ctx.probe("resize_grow"),
            "shrink" => self.ctx.probe("resize_shrink"),
            _ => {}
        }
        self.ctx.event(&format!("resize:{rel}:{}", r.class()), &format!("{start:x}->{new_len}"));
        let exp: Option<bool> = match rel {
            "unknown_start" | "collides" => Some(false),
            "wraps" => None,
            _ => Some(true),
        };
        let sig = format!("C10|resize|{rel}");
        if let R::Panic(_) = r {
            self.ctx.dev("C10", format!("{sig}|{}", r.class()), format!("mem_resize_section({start:#x}, {new_len}) -> {}", r.detail()));
        } else if let Some(e) = exp {
            if e != r.is_ok() {
                self.ctx.dev("C10", format!("{sig}|{}", if e { "rejected" } else { "accepted" }), format!("mem_resize_section({start:#x}, {new_len}) -> {}; areas {:?}", r.detail(), self.m.areas.iter().map(|a| (a.start, a.len)).collect::<Vec<_>>()));
            }
        }
        if let (true, Some(i)) = (r.is_ok(), idx) {
            let old_len = self.m.areas[i].len;
            let (lo, hi) = if new_len < old_len { (new_len, old_len) } else { (old_len, new_len) };
            self.flat_forget(start.wrapping_add(lo), hi - lo);
            if new_len > old_len && hi - lo <= 0x2000 {
                // grown memory starts out as zeros (C10); those are its initial contents for every later read
                self.flat_write(start.wrapping_add(lo), &vec![0u8; (hi - lo) as usize]);
            }
            let a = &mut self.m.areas[i];
            a.data.resize(new_len as usize, 0);
            a.len = new_len;
        }
        self.check_areas("C10", &format!("C10|resize|{}", if r.is_ok() { "prefix_or_zero_fill" } else { "rejected_request_changed_areas" }), &format!("after mem_resize_section({start:#x}, {new_len}) -> {}", r.class()));
    }

    fn prot(&mut self, start: u64, prot: u32) {
        let idx = self.m.areas.iter().position(|a| a.start == start);
        let r = call(|| self.ax.mem_prot(start, prot));
        let exp = idx.is_some() && prot <= 7;
        if prot > 7 {
            self.ctx.fault("bad_prot_mask");
        }
        self.ctx.event(&format!("prot:{}:{}", if idx.is_some() { "known" } else { "unknown" }, r.class()), &format!("{prot}"));
        if let R::Panic(_) = r {
            self.ctx.dev("C09", format!("C09|mem_prot|{}", r.class()), format!("mem_prot({start:#x}, {prot}) -> {}", r.detail()));
        } else if exp != r.is_ok() {
            self.ctx.dev("C09", format!("C09|mem_prot|want={}|got={}", if exp { "ok" } else { "err" }, r.class()), format!("mem_prot({start:#x}, {prot}) -> {}", r.detail()));
        }
        if let (true, Some(i), true) = (r.is_ok(), idx, exp) {
            self.m.areas[i].prot = prot;
        }
        self.check_areas("C09", "C09|mem_prot|areas_differ", &format!("after mem_prot({start:#x}, {prot}) -> {}", r.class()));
    }
}

pub fn run(_prop: &str, sc: &Sc, ctx: &mut Ctx) {
    for p in ["overlap_observed", "anywhere_ok", "anywhere_probe_retries", "resize_grow", "resize_shrink"] {
        ctx.probes.entry(p.to_string()).or_insert(0);
    }
    install_ax_rng(sc.rng);
    let t = templates();
    let ax = match catch(|| Axecutor::new(&t.code, sc.code_start, sc.code_start)) {
        Ok(Ok(a)) => a,
        _ => {
            ctx.harness_errors.push("cannot construct the E1 machine".into());
            return;
        }
    };
    let m = Model::from_ax(&ax);
    // C09: code placed by the constructor is readable and executable, never writable
    if m.areas.len() != 1 || m.areas[0].prot != 5 {
        ctx.dev("C09", "C09|constructor|code_permissions".into(), format!("code area after new(): {:?}", m.areas.iter().map(|a| (a.start, a.len, a.prot)).collect::<Vec<_>>()));
    }
    // C07: initial contents come through the RNG seam: low 32 bits only for GPRs (documented behaviour)
    let mut ex = Ex { ax, m, t, code_start: sc.code_start, ctx, overlapping: false, flat: std::collections::BTreeMap::new(), finished_on_purpose: false, last_init_stack: None };
    for op in sc.ops.iter() {
        ex.ctx.nontrivial = true;
        // asking for more memory than a host has is outside the properties (and ax allocates before it validates)
        let alloc_len = match op {
            Op::InitArea { len, .. } | Op::InitZero { len, .. } | Op::ZeroAnywhere { len } | Op::Anywhere { len, .. } | Op::InitStack { len } | Op::ProgramStart { len, .. } | Op::WriteBytes { len, .. } => *len,
            Op::Resize { new_len, .. } => *new_len,
            _ => 0,
        };
        if alloc_len > (64 << 20) {
            ex.ctx.probe("oversized_request_skipped");
            continue;
        }
        match op {
            Op::RegWrite { w, reg, val } => ex.reg_write(*w, reg, val),
            Op::RegRead { w, reg } => ex.reg_read(*w, reg),
            Op::InitArea { start, len, seed, named } => ex.create(if *named { "init_area_named" } else { "init_area" }, *start, fill(*seed, *len), *named, false),
            Op::InitZero { start, len, named } => ex.create(if *named { "init_zero_named" } else { "init_zero" }, *start, vec![0; *len as usize], *named, true),
            Op::ZeroAnywhere { len } => ex.anywhere("zero_anywhere", vec![0; *len as usize], true, false),
            Op::Anywhere { len, seed, named } => ex.anywhere("anywhere", fill(*seed, *len), false, *named),
            Op::InitStack { len } => ex.init_stack(*len),
            Op::ProgramStart { len, argv, envp } => ex.program_start(*len, argv, envp),
            Op::Resize { start, new_len } => ex.resize(*start, *new_len),
            Op::Prot { start, prot } => ex.prot(*start, *prot),
            Op::ReadBytes { addr, len } => ex.api_read("read_bytes", *addr, *len, None),
            Op::Read { w, addr } => ex.api_read(&format!("read{w}"), *addr, (*w / 8) as u64, Some(*w)),
            Op::WriteBytes { addr, len, seed } => ex.api_write("write_bytes", *addr, fill(*seed | 1, *len), None),
            Op::Write { w, addr, val } => {
                let v = if *w == 128 { hexval(val) } else { hexval(val) & u64::MAX as u128 };
                let n = (*w / 8) as usize;
                ex.api_write(&format!("write{w}"), *addr, v.to_le_bytes()[..n].to_vec(), Some((*w, v)))
            }
            Op::GuestLoad { size, addr } => ex.guest("load", *size, *addr, 0),
            Op::GuestStore { size, addr, val } => ex.guest("store", *size, *addr, hexval(val)),
            Op::GuestRmw { size, addr, val } => ex.guest("rmw", *size, *addr, hexval(val)),
            Op::GuestPush { rsp, val } => ex.guest_stack("push", *rsp, *val),
            Op::GuestPop { rsp } => ex.guest_stack("pop", *rsp, 0),
            Op::GuestCall { rsp } => ex.guest_stack("call", *rsp, 0),
            Op::GuestRet { rsp } => ex.guest_stack("ret", *rsp, 0),
            Op::GuestFetch { addr } => ex.guest_fetch(*addr),
            Op::CodePatch { start, off, imm1, imm2, guest } => ex.code_patch(*start, *off, *imm1, *imm2, *guest),
            Op::Finish => ex.finish(),
            Op::OnInitStack { mask, kind } => ex.on_init_stack(*mask, kind),
            Op::FetchStraddle { at, first, mask } => ex.fetch_straddle(*at, *first, *mask),
        }
        if ex.ax.verif_finished() && !ex.finished_on_purpose {
            // a template ran into the end of the code: cannot happen by construction
            ex.ctx.harness_errors.push("E1 machine finished".into());
            break;
        }
    }
    let d = observe(&ex.ax).digest();
    ex.ctx.log_u64(d);
    let _ = ALL_REGS;
}

impl Engine for E1Engine {
    fn name(&self) -> &'static str {
        "E1 api-sim"
    }
    fn runs(&self, prop: &str, thorough: bool) -> u64 {
        let base = match prop {
            "C07" => 200_000,
            "C08" => 60_000,
            "C09" => 20_000,
            _ => 60_000,
        };
        if thorough {
            base * 20
        } else {
            base
        }
    }
    fn gen(&self, prop: &str, thorough: bool, seed: u64, idx: u64) -> Value {
        serde_json::to_value(gen::generate(prop, thorough, seed, idx)).unwrap()
    }
    fn exec(&self, prop: &str, sc: &Value, ctx: &mut Ctx) {
        match serde_json::from_value::<Sc>(sc.clone()) {
            Ok(s) => run(prop, &s, ctx),
            Err(e) => ctx.harness_errors.push(format!("bad E1 scenario: {e}")),
        }
    }
    fn shrink(&self, _prop: &str, sc: &Value) -> Vec<Value> {
        let s: Sc = match serde_json::from_value(sc.clone()) {
            Ok(s) => s,
            Err(_) => return vec![],
        };
        let mut out = Vec::new();
        let n = s.ops.len();
        let mut width = n / 2;
        while width >= 1 {
            let mut from = 0;
            while from < n {
                let mut c = s.clone();
                let to = (from + width).min(n);
                c.ops.drain(from..to);
                out.push(serde_json::to_value(c).unwrap());
                from += width;
            }
            if width == 1 {
                break;
            }
            width /= 2;
        }
        out
    }
    fn crash_context(&self, _prop: &str, sc: &Value) -> String {
        let last = sc["ops"].as_array().and_then(|a| a.last()).and_then(|o| o["op"].as_str()).unwrap_or("?");
        format!("api|last_op={last}")
    }
    fn components(&self) -> (Vec<&'static str>, Vec<&'static str>) {
        (
            vec!["registers.rs accessors", "memory.rs (all public functions)", "Axecutor::new", "step() for single MOV/MOVUPS/ADD/PUSH/POP/CALL/RET/NOP templates", "iced decoder as used by ax"],
            vec!["thread_rng (seeded RNG seam)", "fatal_error! family in wasm32 mode", "retry loops bounded by the fuel seam", "async executor (one poll)"],
        )
    }
    fn rule(&self, prop: &str) -> String {
        let s = match prop {
            "C07" => "histories of reg_write_*/reg_read_* over all 84 register views (wrong-width views, XMM-for-GPR, EIP and oversized values are the injected faults) with boundary-biased values; after every call all 17+16 registers are read back and compared with a reference register file",
            "C08" => "a layout of 1-6 areas, then histories mixing API and guest (MOV/MOVUPS/ADD templates executed by step) accesses of 1/2/4/8/16/n bytes at area edges, just outside, and at extreme addresses and lengths; byte-map model, all area contents compared after every operation",
            "C09" => "every access path (API read/write, guest load/store/read-modify-write, implicit stack store/load of PUSH/CALL/POP/RET, instruction fetch) against areas under every permission mask, applied by mem_prot right before the access; outcome Err iff a needed permission is missing, memory unchanged after a denial",
            _ => "histories of area creation (explicit, anywhere, stack), resizing and protection changes with starts/lengths chosen relative to existing areas (before, inside, enclosing, overlapping, abutting, identical, zero length, wrapping); interval-set model, bounded liveness of the retry loops through the fuel seam",
        };
        format!("{s}; drawn from mix(VERIF_SEED, property, run index); a run is non-trivial if it performed at least one operation; distinct = distinct FNV hash of the sequence of (operation kind, address class, length class, outcome class)")
    }
    fn assumptions(&self, _prop: &str) -> Vec<String> {
        vec![
            "zero-length accesses and zero-length / wrapping area requests may succeed or fail (the statements are silent); they must not crash".into(),
            "stack instructions are judged only when the whole window [RSP-8, RSP+16) lies inside one area or touches none, so the verdict does not depend on the push/pop slot convention".into(),
            "allocation lengths stay <= 16 MiB: asking for more memory than the host has is outside the properties".into(),
        ]
    }
    fn level(&self, prop: &str) -> &'static str {
        if prop == "C09" {
            "fault_enumeration"
        } else {
            "exploration"
        }
    }
}
