//! All 84 `SupportedRegister` variants by name, with the facts the reference register file needs.

use ax_x86::state::registers::SupportedRegister;

#[derive(Clone, Copy, Debug, PartialEq, Eq)]
pub enum View {
    Q,   // 64-bit GPR
    D,   // 32-bit
    W,   // 16-bit
    BL,  // low byte
    BH,  // high byte (AH, BH, CH, DH)
    Ip,  // RIP
    Eip, // EIP: not a usable view
    X,   // XMM
}

macro_rules! table {
    ($( $name:ident : $view:ident : $parent:expr ),* $(,)?) => {
        pub const ALL_REGS: &[(&str, SupportedRegister, View, usize)] = &[
            $( (stringify!($name), SupportedRegister::$name, View::$view, $parent) ),*
        ];
    };
}

// parent index: position in common::GPR64 (RAX RBX RCX RDX RSI RDI RSP RBP R8..R15), 16 = RIP, XMM: own index
table![
    RIP: Ip: 16, RAX: Q: 0, RBX: Q: 1, RCX: Q: 2, RDX: Q: 3, RSI: Q: 4, RDI: Q: 5, RSP: Q: 6, RBP: Q: 7,
    R8: Q: 8, R9: Q: 9, R10: Q: 10, R11: Q: 11, R12: Q: 12, R13: Q: 13, R14: Q: 14, R15: Q: 15,
    EIP: Eip: 16, EAX: D: 0, EBX: D: 1, ECX: D: 2, EDX: D: 3, ESI: D: 4, EDI: D: 5, ESP: D: 6, EBP: D: 7,
    R8D: D: 8, R9D: D: 9, R10D: D: 10, R11D: D: 11, R12D: D: 12, R13D: D: 13, R14D: D: 14, R15D: D: 15,
    AX: W: 0, BX: W: 1, CX: W: 2, DX: W: 3, SI: W: 4, DI: W: 5, SP: W: 6, BP: W: 7,
    R8W: W: 8, R9W: W: 9, R10W: W: 10, R11W: W: 11, R12W: W: 12, R13W: W: 13, R14W: W: 14, R15W: W: 15,
    AH: BH: 0, AL: BL: 0, BH: BH: 1, BL: BL: 1, CH: BH: 2, CL: BL: 2, DH: BH: 3, DL: BL: 3,
    SIL: BL: 4, DIL: BL: 5, SPL: BL: 6, BPL: BL: 7,
    R8L: BL: 8, R9L: BL: 9, R10L: BL: 10, R11L: BL: 11, R12L: BL: 12, R13L: BL: 13, R14L: BL: 14, R15L: BL: 15,
    XMM0: X: 0, XMM1: X: 1, XMM2: X: 2, XMM3: X: 3, XMM4: X: 4, XMM5: X: 5, XMM6: X: 6, XMM7: X: 7,
    XMM8: X: 8, XMM9: X: 9, XMM10: X: 10, XMM11: X: 11, XMM12: X: 12, XMM13: X: 13, XMM14: X: 14, XMM15: X: 15,
];

pub fn reg_by_name(name: &str) -> Option<(SupportedRegister, View, usize)> {
    ALL_REGS.iter().find(|r| r.0 == name).map(|r| (r.1, r.2, r.3))
}

pub fn view_class(v: View) -> &'static str {
    match v {
        View::Q => "gpr64",
        View::D => "gpr32",
        View::W => "gpr16",
        View::BL => "gpr8lo",
        View::BH => "gpr8hi",
        View::Ip => "rip",
        View::Eip => "eip",
        View::X => "xmm",
    }
}
