//! E1 generator: histories of API calls and guest accesses, chosen relative to a predicted layout.

use super::{intersects, templates, Op, Sc};
use crate::regs::ALL_REGS;
use crate::rng::{mix, Rng};

struct L {
    areas: Vec<(u64, u64)>, // predicted (start, len), assuming overlapping requests are rejected
}

impl L {
    fn free(&self, s: u64, l: u64) -> bool {
        !self.areas.iter().any(|a| intersects(s, l, a.0, a.1))
    }
    fn add(&mut self, s: u64, l: u64) {
        if self.free(s, l) && (s as u128 + l as u128) <= u64::MAX as u128 + 1 {
            self.areas.push((s, l));
        }
    }
    /// number of probes the retry loop needs for length l (None: more than the budget)
    fn probes(&self, l: u64) -> Option<u64> {
        let mut s = 0x1000u64;
        let mut n = 0;
        while !self.free(s, l) && l > 0 {
            s += l;
            n += 1;
            if n > 6_000 {
                return None;
            }
        }
        Some(n)
    }
    fn anywhere(&mut self, l: u64) {
        let mut s = 0x1000u64;
        let mut n = 0;
        while !self.free(s, l) && n < 50_000 && l > 0 {
            s += l;
            n += 1;
        }
        self.areas.push((s, l));
    }
    fn stack(&mut self, l: u64) {
        let mut s = 0x1000u64;
        while s < 0x7fff_ffff_ffff_ffff {
            if self.free(s, l) {
                self.areas.push((s, l));
                return;
            }
            s <<= 1;
        }
    }
}

fn small_len(r: &mut Rng) -> u64 {
    match r.below(10) {
        0 => 0,
        1 => 1,
        2 => 16,
        3 => 0x1000,
        4 => 0xfff,
        5 => 0x1001,
        6 => r.range(1, 64),
        7 => r.range(1, 0x4000),
        8 => *r.pick(&[0x10000u64, 0x40000]),
        _ => r.range(8, 512),
    }
}

fn hex(v: u128) -> String {
    format!("{v:x}")
}

fn value_for(r: &mut Rng, w: u32) -> u128 {
    let max: u128 = if w >= 128 { u128::MAX } else { (1u128 << w) - 1 };
    match r.below(10) {
        0 => 0,
        1 => max,
        2 => max / 2,
        3 => max / 2 + 1,
        4 => 1,
        5 if w < 128 => max + 1, // one too large
        6 if w < 64 => (r.next() as u128) | (1u128 << w),
        // exactly one excess bit anywhere above the view, low part arbitrary (a shifted or truncating range check misses some of these)
        7 if w < 64 => (1u128 << r.range(w as u64, 63)) | (((r.next() as u128) & max) * r.below(2) as u128),
        _ => {
            let v = ((r.next() as u128) << 64) | r.next() as u128;
            v & max
        }
    }
}

fn gen_c07(r: &mut Rng, thorough: bool) -> Vec<Op> {
    let n = if thorough { r.range(20, 120) } else { r.range(20, 60) };
    let mut ops = Vec::new();
    // swarm: some runs concentrate on one parent register so that aliasing is exercised in depth
    let focus: Option<usize> = if r.chance(1, 2) { Some(r.usize(16)) } else { None };
    // a quarter of the histories: somewhere on the way the machine runs to its end
    let finish_at: Option<u64> = if r.chance(1, 4) { Some(r.below(n)) } else { None };
    for _ in 0..n {
        let reg = loop {
            let cand = r.pick(ALL_REGS);
            match focus {
                Some(p) if r.chance(3, 4) => {
                    if cand.3 == p && !matches!(cand.2, crate::regs::View::X) {
                        break cand;
                    }
                }
                _ => break cand,
            }
        };
        let natural = match reg.2 {
            crate::regs::View::BL | crate::regs::View::BH => 8,
            crate::regs::View::W => 16,
            crate::regs::View::D | crate::regs::View::Eip => 32,
            crate::regs::View::Q | crate::regs::View::Ip => 64,
            crate::regs::View::X => 128,
        };
        let w = if r.chance(1, 12) { *r.pick(&[8u32, 16, 32, 64, 128]) } else { natural };
        if finish_at == Some(ops.len() as u64) {
            ops.push(Op::Finish);
        }
        if r.chance(3, 5) {
            ops.push(Op::RegWrite { w, reg: reg.0.to_string(), val: hex(value_for(r, w)) });
        } else {
            ops.push(Op::RegRead { w, reg: reg.0.to_string() });
        }
    }
    ops
}

fn layout(r: &mut Rng, l: &mut L, ops: &mut Vec<Op>, extreme: bool) {
    let n = r.range(1, 6);
    let mut next = *r.pick(&[0x1000u64, 0x2000, 0x8000, 0x20_0000]);
    for k in 0..n {
        let len = match r.below(8) {
            0 => r.range(1, 32),
            1 => 0x1000,
            2 => r.range(1, 0x1000),
            3 if k == 0 => 0x10_0000,
            _ => r.range(16, 600),
        };
        let start = if extreme && k == n - 1 {
            // an area that ends exactly at, or just below, 2^64
            let end_gap = *r.pick(&[0u64, 1, 16]);
            (u64::MAX - len - end_gap).wrapping_add(1)
        } else {
            let s = next;
            next = s + len + *r.pick(&[0u64, 0, 1, 0x10, 0x1000]);
            s
        };
        if r.chance(1, 2) {
            ops.push(Op::InitArea { start, len, seed: r.next(), named: r.chance(1, 3) });
        } else {
            ops.push(Op::InitZero { start, len, named: r.chance(1, 3) });
        }
        l.add(start, len);
    }
}

fn pick_addr(r: &mut Rng, l: &L, len: u64) -> u64 {
    if l.areas.is_empty() || r.chance(1, 12) {
        return match r.below(6) {
            0 => 0,
            1 => 1u64 << 63,
            2 => u64::MAX,
            3 => u64::MAX.wrapping_sub(len).wrapping_add(1),
            4 => (1u64 << 63) - 1,
            _ => r.next(),
        };
    }
    let a = *r.pick(&l.areas);
    let end = a.0.wrapping_add(a.1);
    match r.below(12) {
        0 => a.0,
        1 => end.wrapping_sub(len),
        2 => end.wrapping_sub(len).wrapping_add(1),
        3 => end.wrapping_sub(1),
        4 => end,
        5 => a.0.wrapping_sub(1),
        6 => a.0.wrapping_sub(len),
        7 => a.0.wrapping_sub(len).wrapping_add(1),
        _ => a.0 + r.below(a.1.max(1)),
    }
}

fn pick_len(r: &mut Rng, l: &L, addr_hint_area: Option<(u64, u64)>) -> u64 {
    match r.below(16) {
        0 => 0,
        1 => 1,
        2 => 2,
        3 => 4,
        4 => 8,
        5 => 16,
        6 => addr_hint_area.map(|a| a.1).unwrap_or(32),
        7 => addr_hint_area.map(|a| a.1 + 1).unwrap_or(33),
        8 => addr_hint_area.map(|a| a.1.saturating_sub(1)).unwrap_or(31),
        9 => 1u64 << 32,
        10 => 1u64 << 63,
        11 => u64::MAX,
        12 => u64::MAX - r.below(0x2000),
        _ => {
            let _ = l;
            r.range(1, 64)
        }
    }
}

fn mem_ops(r: &mut Rng, l: &L, ops: &mut Vec<Op>, n: u64) {
    for _ in 0..n {
        let hint = if l.areas.is_empty() { None } else { Some(*r.pick(&l.areas)) };
        match r.below(12) {
            0 | 1 => {
                let len = pick_len(r, l, hint);
                let mut addr = pick_addr(r, l, len);
                if r.chance(1, 8) {
                    // start inside an area, length chosen so that address + length wraps to a small number
                    if let Some(a) = hint {
                        addr = a.0 + r.below(a.1.max(1));
                        let len2 = 0u64.wrapping_sub(addr).wrapping_add(r.below(4));
                        ops.push(Op::ReadBytes { addr, len: len2 });
                        continue;
                    }
                }
                ops.push(Op::ReadBytes { addr, len });
            }
            2 | 3 => {
                let len = pick_len(r, l, hint).min(hint.map(|a| a.1 + 16).unwrap_or(64)).min(0x2000);
                let addr = pick_addr(r, l, len);
                ops.push(Op::WriteBytes { addr, len, seed: r.next() });
            }
            4 => {
                let w = *r.pick(&[8u32, 16, 32, 64, 128]);
                ops.push(Op::Read { w, addr: pick_addr(r, l, (w / 8) as u64) });
            }
            5 => {
                let w = *r.pick(&[8u32, 16, 32, 64, 128]);
                ops.push(Op::Write { w, addr: pick_addr(r, l, (w / 8) as u64), val: hex(value_for(r, w)) });
            }
            6 | 7 => {
                let size = *r.pick(&[1u32, 2, 4, 8, 16]);
                ops.push(Op::GuestLoad { size, addr: pick_addr(r, l, size as u64) });
            }
            8 | 9 => {
                let size = *r.pick(&[1u32, 2, 4, 8, 16]);
                let v = value_for(r, (size * 8).min(128));
                let v = if size < 16 { v & ((1u128 << (size * 8)) - 1) } else { v };
                ops.push(Op::GuestStore { size, addr: pick_addr(r, l, size as u64), val: hex(v) });
            }
            10 => {
                let size = *r.pick(&[1u32, 2, 4, 8]);
                let v = value_for(r, size * 8) & ((1u128 << (size * 8)) - 1);
                ops.push(Op::GuestRmw { size, addr: pick_addr(r, l, size as u64), val: hex(v) });
            }
            _ => {
                let rsp = pick_addr(r, l, 8) & !7;
                match r.below(4) {
                    0 => ops.push(Op::GuestPush { rsp, val: r.next() }),
                    1 => ops.push(Op::GuestPop { rsp }),
                    2 => ops.push(Op::GuestCall { rsp }),
                    // (returns outnumber calls from the first one on: the shadow call stack runs empty)
                    // (not with RSP + 8 == 0: that is the "top-level return" that ends a run on a machine without a stack)
                    _ if rsp.wrapping_add(8) != 0 => ops.push(Op::GuestRet { rsp }),
                    _ => ops.push(Op::GuestPop { rsp }),
                }
            }
        }
    }
}

fn gen_c08(r: &mut Rng, thorough: bool) -> Vec<Op> {
    let mut ops = Vec::new();
    let mut l = L { areas: vec![] };
    let extreme = r.chance(1, 6);
    layout(r, &mut l, &mut ops, extreme);
    let n = if thorough { r.range(10, 80) } else { r.range(10, 40) };
    if r.chance(1, 2) {
        mem_ops(r, &l, &mut ops, n);
        return ops;
    }
    // the layout keeps changing under the accesses: areas are emptied, regrown, and new ones are created
    // where old ones used to be (memory must stay one consistent byte store through all of it)
    let mut left = n;
    while left > 0 {
        let burst = r.range(1, 6).min(left);
        mem_ops(r, &l, &mut ops, burst);
        left -= burst;
        if l.areas.is_empty() {
            continue;
        }
        if r.chance(1, 5) {
            let a = *r.pick(&l.areas);
            if a.1 >= 8 {
                let imm1 = r.next() as u32;
                ops.push(Op::CodePatch { start: a.0, off: r.below(a.1 - 7), imm1, imm2: !imm1 ^ (r.next() as u32 & 0xff00), guest: r.chance(1, 2) });
            }
        }
        let i = r.usize(l.areas.len());
        let a = l.areas[i];
        match r.below(9) {
            8 => {
                // the rights of an area are taken away and given back (a guard page that is opened again): its
                // contents are what they were
                ops.push(Op::Prot { start: a.0, prot: *r.pick(&[0u32, 0, 4, 1]) });
                if r.chance(1, 2) {
                    ops.push(Op::ReadBytes { addr: a.0, len: a.1.min(16) });
                }
                ops.push(Op::Prot { start: a.0, prot: 3 });
                ops.push(Op::ReadBytes { addr: a.0, len: a.1.min(64) });
                if a.1 >= 8 {
                    ops.push(Op::GuestLoad { size: 8, addr: a.0 + r.below(a.1 - 7) });
                }
            }
            6 | 7 => {
                // a small area strictly inside one of the windows an "anywhere" search probes, then such a
                // request: the fresh area must read as its initial contents and the small area must keep its own
                let win = *r.pick(&[0x1000u64, 0x1000, 0x800, 0x2000]);
                let s = 0x1000 + r.below(4) * win + r.range(1, win - 0x42);
                let sl = r.range(1, 0x40);
                if l.free(s, sl) {
                    ops.push(Op::InitArea { start: s, len: sl, seed: r.next() | 1, named: false });
                    l.add(s, sl);
                }
                if r.chance(1, 2) {
                    ops.push(Op::ZeroAnywhere { len: win });
                } else {
                    ops.push(Op::Anywhere { len: win, seed: r.next() | 1, named: r.chance(1, 3) });
                }
                ops.push(Op::ReadBytes { addr: s, len: sl });
                ops.push(Op::WriteBytes { addr: s, len: sl, seed: r.next() });
                ops.push(Op::ReadBytes { addr: s & !0xf, len: 0x40 });
            }
            0 => {
                ops.push(Op::Resize { start: a.0, new_len: 0 });
                l.areas[i].1 = 0;
            }
            1 => {
                let nl = r.range(1, 0x200);
                ops.push(Op::Resize { start: a.0, new_len: nl });
                if !l.areas.iter().enumerate().any(|(j, b)| j != i && intersects(a.0, nl, b.0, b.1)) {
                    l.areas[i].1 = nl;
                }
            }
            2 => {
                // a new area that reaches from below into the place of an (emptied) area
                let len = r.range(0x40, 0x200);
                if a.0 < len {
                    continue;
                }
                let start = a.0 - r.range(1, len - 1);
                ops.push(Op::InitZero { start, len, named: false });
                l.add(start, len);
            }
            3 => {
                let len = r.range(1, 0x100);
                let start = a.0 + a.1;
                ops.push(Op::InitArea { start, len, seed: r.next(), named: false });
                l.add(start, len);
            }
            4 => {
                ops.push(Op::Resize { start: a.0, new_len: a.1 / 2 });
                l.areas[i].1 = a.1 / 2;
            }
            _ => {
                ops.push(Op::Resize { start: a.0, new_len: a.1 + r.range(1, 0x80) });
                let nl = a.1 + 0x80;
                if !l.areas.iter().enumerate().any(|(j, b)| j != i && intersects(a.0, nl, b.0, b.1)) {
                    l.areas[i].1 = a.1;
                }
            }
        }
    }
    ops
}

/// C09: the access paths x the eight masks are enumerated completely in every run
fn gen_c09(r: &mut Rng, idx: u64) -> Vec<Op> {
    let mut ops = Vec::new();
    let data = 0x20_0000u64 + r.below(16) * 0x1000;
    let dlen = r.range(64, 512) & !15;
    let nops = 0x30_0000u64;
    let stack = 0x40_0000u64;
    ops.push(Op::InitArea { start: data, len: dlen, seed: r.next() | 1, named: false });
    ops.push(Op::InitArea { start: nops, len: 64, seed: 5, named: false }); // seed%5==0: filled with NOPs
    ops.push(Op::InitZero { start: stack, len: 256, named: true });
    // an area directly behind the data area (and one directly behind the stack), each under its own mask
    let adj = data + dlen;
    ops.push(Op::InitArea { start: adj, len: 64, seed: r.next() | 1, named: true });
    ops.push(Op::InitArea { start: stack + 256, len: 64, seed: r.next() | 1, named: false });
    let mut cells: Vec<(u32, u32)> = Vec::new(); // (mask, path)
    // a stack made by init_stack (the library knows which area that is) besides the hand-made one
    ops.push(Op::InitStack { len: 256 });
    for mask in 0..8u32 {
        for path in 0..21u32 {
            cells.push((mask, path));
        }
    }
    r.shuffle(&mut cells);
    let _ = idx;
    let mut scratch = 0x60_0000u64;
    for (mask, path) in cells {
        let off = r.below(dlen - 16);
        match path {
            0 => {
                ops.push(Op::Prot { start: data, prot: mask });
                ops.push(Op::ReadBytes { addr: data + off, len: r.range(1, 16) });
            }
            1 => {
                ops.push(Op::Prot { start: data, prot: mask });
                ops.push(Op::WriteBytes { addr: data + off, len: r.range(1, 16), seed: r.next() });
            }
            2 => {
                let w = *r.pick(&[8u32, 16, 32, 64, 128]);
                ops.push(Op::Prot { start: data, prot: mask });
                ops.push(Op::Read { w, addr: data + off });
            }
            3 => {
                let w = *r.pick(&[8u32, 16, 32, 64]);
                ops.push(Op::Prot { start: data, prot: mask });
                ops.push(Op::Write { w, addr: data + off, val: hex(r.next() as u128 & ((1u128 << w) - 1)) });
            }
            4 => {
                ops.push(Op::Prot { start: data, prot: mask });
                ops.push(Op::GuestLoad { size: *r.pick(&[1u32, 2, 4, 8, 16]), addr: data + off });
            }
            5 => {
                let size = *r.pick(&[1u32, 2, 4, 8, 16]);
                ops.push(Op::Prot { start: data, prot: mask });
                ops.push(Op::GuestStore { size, addr: data + off, val: hex(r.next() as u128 & if size < 16 { (1u128 << (size * 8)) - 1 } else { u128::MAX }) });
            }
            6 => {
                let size = *r.pick(&[1u32, 2, 4, 8]);
                ops.push(Op::Prot { start: data, prot: mask });
                ops.push(Op::GuestRmw { size, addr: data + off, val: hex(r.next() as u128 & ((1u128 << (size * 8)) - 1)) });
            }
            7 => {
                ops.push(Op::Prot { start: stack, prot: mask });
                ops.push(Op::GuestPush { rsp: stack + 64 + 8 * r.below(16), val: r.next() });
            }
            8 => {
                ops.push(Op::Prot { start: stack, prot: mask });
                ops.push(Op::GuestPop { rsp: stack + 64 + 8 * r.below(16) });
            }
            9 => {
                ops.push(Op::Prot { start: stack, prot: mask });
                ops.push(Op::GuestCall { rsp: stack + 64 + 8 * r.below(16) });
            }
            10 => {
                ops.push(Op::Prot { start: nops, prot: mask });
                ops.push(Op::GuestFetch { addr: nops + r.below(32) });
            }
            11 => {
                // invalid masks and unknown starts are rejected without change
                ops.push(Op::Prot { start: data, prot: 8 + mask * 3 });
                ops.push(Op::Prot { start: data + 1 + off, prot: mask });
            }
            12 => {
                // the code area placed by the constructor: guest stores into it must fail
                let t = templates();
                let code_off = r.below(t.code.len() as u64 - 16);
                ops.push(Op::GuestStore { size: *r.pick(&[1u32, 2, 4, 8]), addr: 0x50_0000 + code_off, val: hex(0x41) });
                ops.push(Op::WriteBytes { addr: 0x50_0000 + code_off, len: 4, seed: r.next() });
            }
            14 => {
                // a store that starts in the (writable) data area and runs into the neighbour under `mask`
                let size = *r.pick(&[2u32, 4, 8, 16]);
                let back = r.range(1, size as u64 - 1);
                ops.push(Op::Prot { start: data, prot: 3 });
                ops.push(Op::Prot { start: adj, prot: mask });
                match r.below(4) {
                    0 => ops.push(Op::WriteBytes { addr: adj - back, len: size as u64, seed: r.next() }),
                    1 => ops.push(Op::GuestStore { size, addr: adj - back, val: hex(r.next() as u128) }),
                    2 => ops.push(Op::GuestRmw { size: size.min(8), addr: adj - back.min(size.min(8) as u64 - 1), val: hex(r.next() as u128 & 0xff) }),
                    _ => ops.push(Op::ReadBytes { addr: adj - back, len: size as u64 }),
                }
                ops.push(Op::Prot { start: adj, prot: 3 });
            }
            15 => {
                // the other way round: the data area is under `mask`, the neighbour is ordinary memory
                let size = *r.pick(&[2u32, 4, 8, 16]);
                let back = r.range(1, size as u64 - 1);
                ops.push(Op::Prot { start: data, prot: mask });
                ops.push(Op::Prot { start: adj, prot: 3 });
                if r.chance(1, 2) {
                    ops.push(Op::WriteBytes { addr: adj - back, len: size as u64, seed: r.next() });
                } else {
                    ops.push(Op::GuestStore { size, addr: adj - back, val: hex(r.next() as u128) });
                }
            }
            17 => {
                // a protection mask survives resizing: protect, resize (grow or shrink), then access
                ops.push(Op::Prot { start: nops, prot: mask });
                ops.push(Op::Resize { start: nops, new_len: *r.pick(&[48u64, 64, 80, 128]) });
                match r.below(4) {
                    0 => ops.push(Op::WriteBytes { addr: nops + r.below(32), len: r.range(1, 8), seed: r.next() }),
                    1 => ops.push(Op::ReadBytes { addr: nops + r.below(32), len: r.range(1, 8) }),
                    2 => ops.push(Op::GuestFetch { addr: nops + r.below(32) }),
                    _ => ops.push(Op::GuestStore { size: *r.pick(&[1u32, 4, 8]), addr: nops + r.below(32), val: hex(0x90) }),
                }
                ops.push(Op::Resize { start: nops, new_len: 64 });
            }
            19 => {
                ops.push(Op::OnInitStack { mask, kind: r.pick(&["push", "call", "push", "call", "pop", "ret"]).to_string() });
            }
            20 => {
                let s0 = scratch;
                scratch += 0x1000;
                ops.push(Op::FetchStraddle { at: s0, first: r.range(1, 4), mask });
            }
            18 => {
                // a fresh area starts with the default rights whatever stood at its address before: an area is
                // put under `mask`, emptied, and a new one is created at the same start
                let s0 = scratch;
                scratch += 0x1000;
                ops.push(Op::InitArea { start: s0, len: 64, seed: 5, named: false });
                ops.push(Op::Prot { start: s0, prot: mask });
                ops.push(Op::Resize { start: s0, new_len: 0 });
                ops.push(Op::InitArea { start: s0, len: 64, seed: 10, named: false }); // seed % 5 == 0: NOPs
                match r.below(4) {
                    0 => ops.push(Op::WriteBytes { addr: s0 + r.below(32), len: r.range(1, 8), seed: r.next() }),
                    1 => ops.push(Op::ReadBytes { addr: s0 + r.below(32), len: r.range(1, 8) }),
                    2 => ops.push(Op::GuestFetch { addr: s0 + r.below(32) }),
                    _ => ops.push(Op::GuestStore { size: *r.pick(&[1u32, 4, 8]), addr: s0 + r.below(32), val: hex(0x90) }),
                }
            }
            16 => {
                // implicit stack store at the very top of the stack area, neighbour under `mask`
                ops.push(Op::Prot { start: stack, prot: 3 });
                ops.push(Op::Prot { start: stack + 256, prot: mask });
                let rsp = stack + 256 - *r.pick(&[0u64, 4, 8]);
                if r.chance(1, 2) {
                    ops.push(Op::GuestPush { rsp, val: r.next() });
                } else {
                    ops.push(Op::GuestCall { rsp });
                }
                ops.push(Op::Prot { start: stack + 256, prot: 3 });
            }
            _ => {
                ops.push(Op::Prot { start: stack, prot: mask });
                ops.push(Op::GuestRet { rsp: stack + 64 + 8 * r.below(16) });
            }
        }
    }
    ops
}

fn gen_c10(r: &mut Rng, thorough: bool) -> Vec<Op> {
    let mut ops = Vec::new();
    let mut l = L { areas: vec![] };
    let n = if thorough { r.range(6, 50) } else { r.range(6, 28) };
    // swarm weights
    let w_any = *r.pick(&[0u32, 2, 6]);
    let w_resize = *r.pick(&[1u32, 4, 8]);
    let w_rel = *r.pick(&[2u32, 6]);
    let w_mem = *r.pick(&[0u32, 2]);
    let mut total_bytes: u64 = 0;
    for _ in 0..n {
        let which = r.weighted(&[4, w_rel, w_any, 1, w_resize, 1, w_mem]);
        match which {
            0 => {
                // fresh area at a low address (where the retry loops probe first) or elsewhere
                let len = small_len(r);
                let start = match r.below(5) {
                    0 => 0x1000 + r.below(8) * 0x1000,
                    1 => 0x1000u64 << r.below(8),
                    2 => 0x1000 + r.below(0x4000),
                    3 => r.next() >> r.range(1, 40),
                    _ => 0x10_0000 + r.below(0x100) * 0x100,
                };
                total_bytes += len;
                if r.chance(1, 2) {
                    ops.push(Op::InitZero { start, len, named: r.chance(1, 3) });
                } else {
                    ops.push(Op::InitArea { start, len, seed: r.next(), named: r.chance(1, 3) });
                }
                l.add(start, len);
            }
            1 => {
                // relative to an existing area
                if l.areas.is_empty() {
                    continue;
                }
                let a = *r.pick(&l.areas);
                let end = a.0 + a.1;
                let (start, len) = match r.below(12) {
                    0 => (a.0, a.1),                                             // identical
                    1 => (a.0 + r.below(a.1.max(1)), r.range(1, 8)),             // inside
                    2 => (a.0.wrapping_sub(r.range(1, 64)), a.1 + 128),          // enclosing
                    3 => (a.0.wrapping_sub(r.range(1, 64)), r.range(65, 200)),   // overlapping from below (usually)
                    4 => (end - 1.min(a.1), r.range(1, 64)),                     // overlapping from above
                    5 => (end, r.range(1, 64)),                                  // abutting above
                    6 => {
                        let len = r.range(1, 64);
                        (a.0.wrapping_sub(len), len) // abutting below
                    }
                    7 => (a.0, 0),                                               // zero length at a start
                    8 => (a.0 + a.1 / 2, 0),                                     // zero length inside
                    9 => (u64::MAX - r.below(64), r.range(65, 300)),             // wraps past 2^64
                    10 => ((1u64 << 63) - r.below(32), r.range(1, 128)),         // around 2^63
                    _ => (a.0.wrapping_sub(1), 1),                               // one byte below
                };
                total_bytes += len;
                if r.chance(1, 2) {
                    ops.push(Op::InitZero { start, len, named: false });
                } else {
                    ops.push(Op::InitArea { start, len, seed: r.next(), named: r.chance(1, 4) });
                }
                l.add(start, len);
            }
            2 => {
                let len = match r.below(6) {
                    0 => 0,
                    1 => 1,
                    2 => 0x1000,
                    _ => small_len(r),
                };
                // keep the retry loop's worst case well inside the fuel budget
                let len = if len > 0 && l.probes(len).is_none() { 0x1000 } else { len };
                let len = if len > 0 && l.probes(len).is_none() { 0x10_0000 } else { len };
                total_bytes += len;
                if r.chance(1, 2) {
                    ops.push(Op::ZeroAnywhere { len });
                } else {
                    ops.push(Op::Anywhere { len, seed: r.next(), named: r.chance(1, 2) });
                }
                l.anywhere(len);
            }
            3 => {
                let len = small_len(r);
                total_bytes += len;
                if r.chance(1, 3) {
                    // System V start frame: one area per string, then the stack with room for the frame
                    let argv: Vec<u64> = (0..r.below(4)).map(|_| r.below(24)).collect();
                    let envp: Vec<u64> = (0..r.below(3)).map(|_| r.below(24)).collect();
                    for n in argv.iter().chain(envp.iter()) {
                        l.anywhere(n + 1);
                    }
                    let frame = (argv.len() + envp.len() + 3) as u64 * 8 + 32;
                    l.stack(len + frame);
                    ops.push(Op::ProgramStart { len, argv, envp });
                } else {
                    ops.push(Op::InitStack { len });
                    l.stack(len);
                }
            }
            4 => {
                if l.areas.is_empty() {
                    continue;
                }
                let i = r.usize(l.areas.len());
                let a = l.areas[i];
                let gap = l.areas.iter().filter(|b| b.0 >= a.0 + a.1.max(1) || (b.0 > a.0)).map(|b| b.0 - a.0).min();
                let new_len = match r.below(10) {
                    0 => 0,
                    1 => a.1 + 1,
                    2 => a.1 + r.range(1, 0x2000),
                    3 => a.1.saturating_sub(1),
                    4 => a.1 / 2,
                    5 => gap.unwrap_or(a.1 + 64),            // exactly up to the next area
                    6 => gap.map(|g| g + 1).unwrap_or(a.1),  // one byte into the next area
                    7 => gap.map(|g| g + r.range(1, 0x1000)).unwrap_or(a.1 * 2),
                    8 => a.1,
                    _ => r.range(0, 0x1000),
                };
                let new_len = new_len.min(if r.chance(1, 40) { 16 << 20 } else { 1 << 20 });
                let start = if r.chance(1, 10) { a.0 + 1 } else { a.0 };
                ops.push(Op::Resize { start, new_len });
                let fits = !l.areas.iter().enumerate().any(|(j, b)| j != i && intersects(a.0, new_len, b.0, b.1));
                if start == a.0 && fits {
                    total_bytes += new_len.saturating_sub(a.1);
                    l.areas[i].1 = new_len;
                }
            }
            5 => {
                if l.areas.is_empty() {
                    continue;
                }
                let a = *r.pick(&l.areas);
                ops.push(Op::Prot { start: a.0, prot: r.below(8) as u32 });
            }
            _ => mem_ops(r, &l, &mut ops, 2),
        }
    }
    ops
}

pub fn generate(prop: &str, thorough: bool, seed: u64, idx: u64) -> Sc {
    let mut r = Rng::new(mix(seed, prop, idx));
    let ops = match prop {
        "C07" => gen_c07(&mut r, thorough),
        "C08" => gen_c08(&mut r, thorough),
        "C09" => gen_c09(&mut r, idx),
        _ => gen_c10(&mut r, thorough),
    };
    let code_start = if prop == "C09" { 0x50_0000 } else { 0x4000_0000 + r.below(256) * 0x1000 };
    Sc { code_start, rng: r.next(), ops }
}
